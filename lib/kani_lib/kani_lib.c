// Copyright Kani Contributors
// SPDX-License-Identifier: Apache-2.0 OR MIT
#include <stddef.h>
#include <stdint.h>

// Declare functions instead of importing more headers in order to avoid conflicting definitions.
// See https://github.com/model-checking/kani/issues/1774 for more details.
void  free(void *ptr);
void *memcpy(void *dst, const void *src, size_t n);
void *calloc(size_t nmemb, size_t size);
void *malloc(size_t size);

/// Mapping unit to `void` works for functions with no return type but not for
/// variables with type unit. We treat both uniformly by declaring an empty
/// struct type: `struct Unit {}` and a global variable `struct Unit VoidUnit`
/// returned by all void functions (both declared by the Kani compiler).
struct Unit;
extern struct Unit VoidUnit;

// `assert` then `assume`
#define __KANI_assert(cond, msg)            \
    do {                                    \
        __CPROVER_bool __KANI_temp = (cond);          \
        __CPROVER_assert(__KANI_temp, msg); \
        __CPROVER_assume(__KANI_temp);      \
    } while (0)

// Check that the input is either a power of 2, or 0. Algorithm from Hackers Delight.
__CPROVER_bool __KANI_is_nonzero_power_of_two(size_t i) { return (i != 0) && (i & (i - 1)) == 0; }

// ---- /verif variant: small allocations are rounded up to two fixed size classes, so that the heap objects
// behind Vec / Box / LinkedList nodes have a CONSTANT size for CBMC even when the requested size is not
// constant-propagated (a symbolic-size object is an unbounded array: quadratically many Ackermann constraints).
// Over-allocation can only hide an out-of-bounds access that stays inside the slack of an object.
#define __VERIF_CLASS(size) ((size) <= 64 ? (size_t)64 : ((size) <= 512 ? (size_t)512 : (size)))

uint8_t *__rust_alloc(size_t size, size_t align)
{
    __KANI_assert(size > 0, "__rust_alloc must be called with a size greater than 0");
    __KANI_assert(__KANI_is_nonzero_power_of_two(align), "Alignment is power of two");
    if (size <= 64) return malloc(64);
    if (size <= 512) return malloc(512);
    return malloc(size);
}

uint8_t *__rust_alloc_zeroed(size_t size, size_t align)
{
    __KANI_assert(size > 0, "__rust_alloc_zeroed must be called with a size greater than 0");
    __KANI_assert(__KANI_is_nonzero_power_of_two(align), "Alignment is power of two");
    if (size <= 64) return calloc(1, 64);
    if (size <= 512) return calloc(1, 512);
    return calloc(1, size);
}

struct Unit __rust_dealloc(uint8_t *ptr, size_t size, size_t align)
{
    __KANI_assert(__KANI_is_nonzero_power_of_two(align), "Alignment is power of two");
    __KANI_assert(__CPROVER_OBJECT_SIZE(ptr) == __VERIF_CLASS(size),
                  "rust_dealloc must be called on an object whose allocated size matches its layout");
    free(ptr);
    return VoidUnit;
}

uint8_t *__rust_realloc(uint8_t *ptr, size_t old_size, size_t align, size_t new_size)
{
    __KANI_assert(ptr != 0, "rust_realloc must be called with a non-null pointer");
    __KANI_assert(new_size > 0, "rust_realloc must be called with a size greater than 0");
    __KANI_assert(__KANI_is_nonzero_power_of_two(align), "Alignment is power of two");
    uint8_t *result;
    if (new_size <= 64) result = malloc(64);
    else if (new_size <= 512) result = malloc(512);
    else result = malloc(new_size);
    if (result) {
        // copy whole size classes (constant sizes) when the old object is a small one
        if (old_size <= 64) memcpy(result, ptr, 64);
        else if (old_size <= 512 && new_size > 64) memcpy(result, ptr, 512);
        else {
            size_t bytes_to_copy = new_size < old_size ? new_size : old_size;
            memcpy(result, ptr, bytes_to_copy);
        }
        free(ptr);
    }
    return result;
}

// Function required by the linker, see https://github.com/rust-lang/rust/pull/141061
struct Unit __rust_no_alloc_shim_is_unstable_v2(void)
{
    return VoidUnit;
}
