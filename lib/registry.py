"""Registry: build configurations, injection sites, harnesses, checks."""

JOBS = 6          # concurrent CBMC processes per check (memory bound: winners use 1-3 GB)
MEM_GB = 20       # RLIMIT_AS per process

# slice/array `==` is CBMC's builtin memcmp loop: give that one loop its own bound so that the global
# unwinding bound of a harness can stay small (largest compared object: 64 bytes)
CBMC_ARGS = ["--unwindset", "memcmp.0:70"]

# Cuts applied by lib/cbmc_wrap.py to the goto binary Kani hands to CBMC (all harnesses; listed in evidence):
WRAP_CFG = {
    # freeing an error value has no observable effect; the drop glue of the crate's error types is mutually
    # recursive through io::Error's Box<dyn Error> (every candidate impl is explored at every level)
    "remove_body": [
        r"^std::ptr::drop_glue::<(error::Error|cosmian_crypto_core::CryptoCoreError|std::io::Error|data_struct::error::Error)>$",
        r"^<core::io::error::repr::Repr as std::ops::Drop>::drop$",
        # zeroization of byte buffers (memory hygiene; no property observes it, no code reads a buffer after zeroizing it)
        r"^<std::slice::IterMut<'_, u8> as zeroize::Zeroize>::zeroize$",
    ],
    # fixed-size byte loops of the real code get their own bound (32-byte secrets, 16-byte tags)
    "unwindset": [
        [r"core::primitives::xor_2::<", 33],
        [r"core::primitives::xor_in_place::<", 33],
    ],
}
WRAP_ASSUMPTIONS = [
    "cut: bodies of the drop glue of error values (crate Error, CryptoCoreError, io::Error) removed from the goto program "
    "(freeing an error is unobservable; their recursive drop glue through Box<dyn Error> is intractable)",
    "per-loop unwinding bounds: memcmp 70, primitives::xor_2 / xor_in_place 33; all other loops use the harness bound; "
    "unwinding assertions on",
]

GUARD = "cosmian_cover_crypt_verif"

BUILDS = {
    # the crate exactly as users build it (default features)
    "real": {"cargo_args": [], "kani_args": []},
    # the crate's own logic over model leaves (feature added by the guarded hook commit in /repo)
    # (Kani's per-assertion reachability covers are switched off there: every cover costs one more SAT call on
    # a multi-million-clause instance; vacuity is guarded by the harnesses' own kani::cover! witnesses)
    "model": {"cargo_args": ["--no-default-features", "--features", GUARD], "kani_args": ["--no-assertion-reach-checks"]},
}

# Where harness modules are injected: `parent` gets `#[cfg(kani)] mod verif_k;` appended, the harness file is
# copied next to it. Child modules see the private items of their parent.
SITES = {
    "revision_vec": dict(file="revision_vec.rs", parent="src/data_struct/revision_vec.rs",
                         modpath="data_struct::revision_vec::verif_k"),
    "primitives_model": dict(file="primitives_model.rs", include=["common.rs"], parent="src/core/primitives.rs",
                             modpath="core::primitives::verif_k"),
}

COMMON_ASSUMPTIONS = [
    "Kani 0.68 / CBMC 6.11 / cadical are sound for the Rust semantics they model (dev-profile MIR, overflow checks on)",
    "bounded model checking: the claim covers exactly the shapes/sizes listed in 'bounds'; unwinding assertions are on",
]

HARNESSES = {}


def H(name, site, props, tier="quick", **kw):
    HARNESSES[name] = dict(site=site, props=props, tier=tier, **kw)


# ---------------------------------------------------------------- RevisionVec (C04 R-iter, C01 L-iter, C14 U-use)
_riter_funcs = "RevisionVec::revisions, RevisionIterator::next, RevisionVec::insert_new_chain"
for shape, tier in [("1", "quick"), ("2", "quick"), ("1_1", "quick"), ("2_1", "quick"), ("1_2", "quick"),
                    ("2_2", "quick"), ("3_1", "thorough"), ("1_3", "thorough"), ("2_3", "thorough"),
                    ("1_2_1", "thorough"), ("2_1_2", "thorough"), ("1_1_2", "thorough")]:
    H("riter_shape_" + shape, "revision_vec", ["C04", "C01"], tier,
      desc="revisions() yields, at depth d, exactly the d-th element of every chain that has one, then ends",
      bounds="RevisionVec<u8,u8>, chain lengths (%s) concrete, all keys and element values symbolic" % shape.replace("_", ","),
      unwind=5, timeout=900, covers=["all depths visited"])
H("riter_zero_chains_terminates", "revision_vec", ["C14", "C04"], "quick",
  desc="revisions() on a key with zero chains ends immediately (no endless Some([]))",
  bounds="empty RevisionVec<u8,u8>", unwind=3, timeout=300, covers=["reached"])

SMALL_CMP = [[r"^memcmp$", 4]]  # right names <= 2 bytes, toy KEM keys 2 bytes: no 32-byte comparison in these harnesses
SITES["keys_model"] = dict(file="keys_model.rs", include=["common.rs"], parent="src/core/primitives.rs",
                           modpath="core::primitives::verif_k2", modname="verif_k2")
for _n in ["k_refresh_m1_u00", "k_refresh_m2_u11", "k_refresh_m1_u11", "k_refresh_m1_u12", "k_refresh_m2_u13",
           "k_refresh_m1_u02", "k_refresh_drops_unknown_right", "k_rekey_chain1", "k_rekey_chain2",
           "k_mpk_publishes_activated_fronts", "k_rekey_unknown_last", "k_rekey_unknown_first", "k_prune_chain2",
           "k_update_existing_right", "k_update_new_right", "k_update_fails_bad_first", "k_update_fails_bad_last"]:
    H(_n, "keys_model", ["G2"], "quick", build="model", timeout=900, desc="probe", bounds="probe", loops=SMALL_CMP)

TRAP_LOOPS = [[r"toy_group::ToyPoint|toy_group::ToyScalar", 3]]  # loops over traps / markers: tracing level 1 = 2 elements
H("g1_kem_classic_1x1", "primitives_model", ["G1"], "quick", build="model", unwind=2, timeout=900, loops=TRAP_LOOPS,
  desc="probe", bounds="probe", covers=["decaps returned Some"])

CHECKS = {
    "G1": dict(),
    "G2": dict(),
    "C04": dict(
        bounds_note="R-iter: RevisionVec<u8,u8> instantiation, <=3 chains x <=3 elements, shape concrete per harness",
        outside="chains longer than 3, more than 3 chains, the RightSecretKey instantiation of the iterator",
        assumptions=[],
    ),
}


def harness_id(h):
    return SITES[HARNESSES[h]["site"]]["modpath"] + "::" + h


def sites_for(hs):
    out = []
    for h in hs:
        s = HARNESSES[h]["site"]
        if s not in out:
            out.append(s)
    return out


def select(prop, tier, seed=0):
    names = [h for h, s in HARNESSES.items() if prop in s["props"]]
    quick = [h for h in names if HARNESSES[h]["tier"] == "quick"]
    thorough = [h for h in names if HARNESSES[h]["tier"] == "thorough"]
    if tier == "thorough":
        return quick + thorough
    # VERIF_SEED rotates one thorough-tier harness into the quick set (it never replaces a symbolic variable)
    extra = [h for h in thorough if HARNESSES[h].get("seedable", True) and HARNESSES[h].get("timeout", 600) <= 900]
    if extra and seed:
        quick = quick + [extra[seed % len(extra)]]
    return quick


def assumptions_for(h):
    s = HARNESSES[h]
    out = list(COMMON_ASSUMPTIONS) + WRAP_ASSUMPTIONS
    out += s.get("assumptions", [])
    if s.get("build", "real") == "model":
        out += MODEL_ASSUMPTIONS
    return out


MODEL_ASSUMPTIONS = []
