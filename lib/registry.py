"""Registry: build configurations, injection sites, harnesses, checks."""

JOBS = 5          # concurrent CBMC processes per check (memory bound: winners use 1-8 GB)
MEM_GB = 36       # RLIMIT_AS per process
REPLAY_MEM_GB = 56  # the concrete-playback solve of a counterexample runs alone, without formula slicing

# slice/array `==` is CBMC's builtin memcmp loop: give that one loop its own bound so that the global
# unwinding bound of a harness can stay small (largest compared object: 64 bytes)
CBMC_ARGS = ["--unwindset", "memcmp.0:70"]

# Cuts applied by lib/cbmc_wrap.py to the goto binary Kani hands to CBMC (all harnesses; listed in evidence):
WRAP_CFG = {
    # freeing an error value has no observable effect; the drop glue of the crate's error types is mutually
    # recursive through io::Error's Box<dyn Error> (every candidate impl is explored at every level)
    "remove_body": [
        r"^std::ptr::drop_glue::<(error::Error|cosmian_crypto_core::CryptoCoreError|std::io::Error|data_struct::error::Error)>$",
        r"^<core::io::error::repr::Repr as std::ops::Drop>::drop$",
        # zeroization of byte buffers (memory hygiene; no property observes it, no code reads a buffer after zeroizing it)
        r"^<std::slice::IterMut<'_, u8> as zeroize::Zeroize>::zeroize$",
        r"^zeroize::volatile_set::<",
    ],
    # fixed-size byte loops of the real code get their own bound (32-byte secrets, 16-byte tags)
    "unwindset": [
        [r"core::primitives::xor_2::<", 33],
        [r"core::primitives::xor_in_place::<", 33],
        # any other small byte-loop helper of primitives.rs (constant-time comparisons, XORs, ...): same bound, so that
        # a change introducing one does not merely trip the harness' small global bound
        [r"^core::primitives::(?!(verif_k|verif_k2|c_decaps|h_decaps|full_decaps|c_encaps|h_encaps|decaps|encaps|shuffle|refresh|refresh_coordinate_keys|rekey|update_msk|prune|sign|verify|usk_keygen|setup)\b)\w+", 33],
    ],
}
WRAP_ASSUMPTIONS = [
    "cut: bodies of the drop glue of error values (crate Error, CryptoCoreError, io::Error) and of byte-buffer zeroization "
    "are emptied in the goto program (freeing an error / wiping a dead buffer is unobservable; the recursive drop glue "
    "through Box<dyn Error> is intractable)",
    "per-loop unwinding bounds: memcmp (per harness, <= 70), primitives::xor_2 / xor_in_place 33, loops over tracers 3; "
    "all other loops use the harness' #[kani::unwind]; unwinding assertions are on, so a too-small bound is an error",
    "Kani's C allocator model is replaced by a size-class variant (requests <= 64 / <= 512 bytes get 64 / 512-byte "
    "objects): heap objects have constant sizes for CBMC; over-allocation can only hide an out-of-bounds access that "
    "stays inside the slack of one object (memory safety of dependencies' unsafe code is not the subject here)",
]

GUARD = "cosmian_cover_crypt_verif"

BUILDS = {
    # the crate exactly as users build it (default features)
    "real": {"cargo_args": [], "kani_args": []},
    # the crate's own logic over model leaves (feature added by the guarded hook commits in /repo)
    # (Kani's per-assertion reachability covers are switched off there: every cover costs one more SAT call on
    # a multi-million-clause instance; vacuity is guarded by the harnesses' own kani::cover! witnesses)
    "model": {"cargo_args": ["--no-default-features", "--features", GUARD], "kani_args": ["--no-assertion-reach-checks"]},
}

MODEL_ASSUMPTIONS = [
    "model (feature cosmian_cover_crypt_verif): group = (Z_13,+) with generator 1 under Kani (Z_251 natively), scalars and "
    "hash-to-scalar non-zero; exact ring/group laws, no secrecy modelled",
    "model: ML-KEM replaced by an ideal KEM with implicit rejection (2-byte keys, 4-byte encapsulations)",
    "model: Sha3/Kmac replaced by a random-oracle table: equal inputs give equal outputs, a new input gets an arbitrary "
    "output assumed collision-free (bytes 0..16 and 16..48) against all earlier outputs; at most 16 distinct queries, "
    "inputs <= 112 bytes per harness",
    "model: std HashMap/HashSet replaced by insertion-ordered association lists with inline capacity 3 under Kani "
    "(hash-dependent iteration order is not modelled; where order matters the harness enumerates the orders)",
    "model validation: the repository's own test suite passes natively over the models (32 of 33 tests; test_r25519 "
    "is specific to the real curve)",
]

# Where harness modules are injected: `parent` gets `#[cfg(kani)] mod <modname>;` appended, the harness file is
# copied next to it. Child modules see the private items of their ancestors.
SITES = {
    "revision_vec": dict(file="revision_vec.rs", parent="src/data_struct/revision_vec.rs",
                         modpath="data_struct::revision_vec::verif_k"),
    "primitives_model": dict(file="primitives_model.rs", include=["common.rs"], parent="src/core/primitives.rs",
                             modpath="core::primitives::verif_k"),
    "keys_model": dict(file="keys_model.rs", include=["common.rs"], parent="src/core/primitives.rs",
                       modpath="core::primitives::verif_k2", modname="verif_k2"),
    "access_policy": dict(file="access_policy.rs", include=["common.rs"], parent="src/abe_policy/access_policy.rs",
                          modpath="abe_policy::access_policy::verif_k"),
    "serialization_model": dict(file="serialization_model.rs", include=["common.rs"],
                                parent="src/core/serialization/mod.rs", modpath="core::serialization::verif_k"),
    "serialization_narrow": dict(file="serialization_narrow.rs", include=["common.rs"], modname="verif_k3",
                                 parent="src/core/serialization/mod.rs", modpath="core::serialization::verif_k3"),
    "primitives_model2": dict(file="primitives_model2.rs", include=["common.rs"], modname="verif_k4",
                              parent="src/core/primitives.rs", modpath="core::primitives::verif_k4"),
    "serialization_layout": dict(file="serialization_layout.rs", include=["common.rs"], modname="verif_k5",
                                 parent="src/core/serialization/mod.rs", modpath="core::serialization::verif_k5"),
    "keys_model2": dict(file="keys_model2.rs", include=["common.rs"], modname="verif_k6",
                        parent="src/core/primitives.rs", modpath="core::primitives::verif_k6"),
    "serialization_min": dict(file="serialization_min.rs", include=["common.rs"], modname="verif_k7",
                              parent="src/core/serialization/mod.rs", modpath="core::serialization::verif_k7"),
    "serialization_min2": dict(file="serialization_min2.rs", include=["common.rs"], modname="verif_k8",
                               parent="src/core/serialization/mod.rs", modpath="core::serialization::verif_k8"),
    "serialization_min3": dict(file="serialization_min3.rs", include=["common.rs"], modname="verif_k9",
                               parent="src/core/serialization/mod.rs", modpath="core::serialization::verif_k9"),
    "policy_model": dict(file="policy_model.rs", include=["common.rs"], parent="src/abe_policy/access_structure.rs",
                         modpath="abe_policy::access_structure::verif_k"),
}

COMMON_ASSUMPTIONS = [
    "Kani 0.68 / CBMC 6.11 / cadical are sound for the Rust semantics they model (dev-profile MIR, overflow checks on)",
    "bounded model checking: the claim covers exactly the shapes/sizes listed in 'bounds'; unwinding assertions are on",
]

CMP34 = [[r"^memcmp$", 34]]     # largest compared object: a 32-byte signature / secret
SMALL_CMP = [[r"^memcmp$", 4]]  # right names <= 2 bytes, toy KEM keys 2 bytes: no 32-byte comparison in these harnesses
TRAP_LOOPS = [[r"toy_group::ToyPoint|toy_group::ToyScalar", 3]]  # loops over traps / markers: tracing level 1 = 2 elements

HARNESSES = {}


def H(name, site, props, tier="quick", **kw):
    HARNESSES[name] = dict(site=site, props=props, tier=tier, **kw)


# ================================================================ RevisionVec (real build)
# (shapes (3,1) and (2,3) and the 22/12-byte variants are in harness/revision_vec.rs; they need > 20 GB each with
# Kani's reachability checks on and were killed by the OOM killer during development: not registered)
for shape, tier in [("1", "thorough"), ("2", "quick"), ("1_1", "thorough"), ("2_1", "quick"), ("1_2", "quick"),
                    ("2_2", "thorough"), ("1_3", "thorough"),
                    ("1_2_1", "thorough"), ("2_1_2", "thorough"), ("1_1_2", "thorough")]:
    H("riter_shape_" + shape, "revision_vec", ["C04", "C01"], tier,
      desc="RevisionVec::revisions() yields, at depth d, exactly the d-th element of every chain that has one, then ends "
           "(decapsulation walks user secrets with it)",
      bounds="RevisionVec<u8,u8> instantiation, chain lengths (%s) concrete, all keys and element values symbolic" % shape.replace("_", ","),
      unwind=4 if len(shape) <= 3 and "3" not in shape else 5, timeout=1500, covers=["all depths visited"],
      heavy=(len(shape) > 3 or "3" in shape), seedable=(len(shape) <= 3 and "3" not in shape))
H("riter_zero_chains_terminates", "revision_vec", ["C14", "C04"], "quick",
  desc="revisions() on a key with zero chains ends immediately (no endless Some([]) in decaps)",
  bounds="empty RevisionVec<u8,u8>", unwind=3, timeout=300, covers=["reached"])

# ================================================================ KEM core over models
K_BOUNDS = ("tracing level 1 (2 tracers), 1 target right, user key with 1 right x 1 secret; all scalars, the seed S, "
            "every RNG draw and every random-oracle output symbolic")
H("g1_kem_classic_1x1", "primitives_model", ["C01"], "quick", build="model", unwind=2, timeout=1500, loops=TRAP_LOOPS,
  desc="c_encaps then decaps with the matching classic secret returns exactly the encapsulated secret",
  bounds=K_BOUNDS, covers=["decaps returned Some"])
H("g1_kem_hybrid_1x1", "primitives_model", ["C01", "C11"], "thorough", build="model", unwind=2, timeout=1800,
  loops=TRAP_LOOPS + [[r"toy_kem::session_key", 3]],
  desc="h_encaps yields a hybridized encapsulation; decaps with the matching hybridized secret returns the same secret",
  bounds=K_BOUNDS + "; ideal KEM keys symbolic")
H("s_kem_classic_unauthorized", "primitives_model", ["C02"], "quick", build="model", unwind=2, timeout=1500, loops=TRAP_LOOPS,
  desc="decaps with a key whose only secret differs from the target's returns None, never a secret",
  bounds=K_BOUNDS + "; user secret y != target secret x", covers=["decaps returned None"])
for _n, _c, _w in [("n_tamper_tag_byte", "tag altered", "any byte of the tag (symbolic position, non-zero delta)"),
                   ("n_tamper_masked_seed_byte", "masked seed altered", "any byte of the masked seed F (symbolic position, non-zero delta)"),
                   ("n_tamper_trap", "trap altered", "either trap replaced by a different point")]:
    H(_n, "primitives_model", ["C07"], "quick", build="model", unwind=2, timeout=1800, loops=TRAP_LOOPS,
      desc="an honest classic encapsulation with " + _w + " is never opened by the authorized key",
      bounds=K_BOUNDS, covers=[_c])
H("g1_kem_classic_enc_hybrid_key", "primitives_model", ["C01", "C11"], "quick", build="model", unwind=2, timeout=1800, loops=TRAP_LOOPS,
  desc="a classic encapsulation made for a hybridized right is opened by the key holding that right's hybridized secret",
  bounds=K_BOUNDS + "; ideal KEM key symbolic", covers=["decaps returned Some"])
H("s_kem_classic_enc_hybrid_key_unauthorized", "primitives_model", ["C02"], "quick", build="model", unwind=2, timeout=1800, loops=TRAP_LOOPS,
  desc="a classic encapsulation made for a hybridized right is not opened by a key holding a different hybridized secret",
  bounds=K_BOUNDS + "; both ideal-KEM keys symbolic; user ElGamal secret y != target secret x", covers=["decaps returned None"])
H("u_decaps_degenerate_encapsulations", "primitives_model", ["C14"], "quick", build="model", unwind=3, timeout=1500, loops=TRAP_LOOPS,
  desc="decaps on encapsulations only a parser can build (no right-encapsulation, either flavour; no trap): Ok(None), no panic",
  bounds="valid 1-right user key; tag symbolic; flavour and presence of traps symbolic",
  covers=["hybridized, no right-encapsulation", "classic, no trap"])
H("w_encaps_fresh_per_seed", "primitives_model", ["C16"], "quick", build="model", unwind=2, timeout=1800, loops=TRAP_LOOPS,
  desc="two c_encaps calls with different seeds give different tags and different session secrets",
  bounds=K_BOUNDS + "; two seeds assumed different (RNG contract)", covers=["two encapsulations"])
H("y_full_decaps_1x1", "primitives_model", ["C18"], "quick", build="model", unwind=2, timeout=1800,
  loops=TRAP_LOOPS + [[r"std::option::Option<", 4]],  # the model map's 3 inline slots
  desc="full_decaps on an honest 1-target encapsulation: Ok(same secret, {that right}) iff the right's secret is activated",
  bounds=K_BOUNDS + "; master key with that 1 right x 1 secret, activation flag symbolic",
  covers=["right activated", "right disabled"])
H("y_full_decaps_2x2", "primitives_model2", ["C18"], "thorough", build="model", unwind=3, timeout=2400, heavy=True,
  loops=TRAP_LOOPS + [[r"std::option::Option<", 4]],
  desc="full_decaps on an honest classic 2-target encapsulation, master key holding both rights: the audience is exactly "
       "the set of targeted rights whose secret is activated (not a subset), with the encapsulated secret; Err iff none is",
  bounds="tracing level 1 (2 tracers), 2 target rights, master key with those 2 rights x 1 secret (distinct secrets), both "
         "activation flags, all scalars, the seed, every RNG draw (incl. the shuffle) and every oracle output symbolic",
  covers=["both rights activated", "one right disabled", "both rights disabled"])
H("h_select_subkeys_mode", "primitives_model", ["C11", "C09"], "quick", build="model", unwind=4, timeout=1500, loops=SMALL_CMP,
  desc="MasterPublicKey::select_subkeys: the encapsulation is hybridized iff every targeted right is; a right with no "
       "published key is an error",
  bounds="public key with 2 rights of symbolic flavours, 1 or 2 targets (symbolic)")
H("v_generate_user_id_relation", "primitives_model", ["C17", "C16"], "quick", build="model", unwind=4, timeout=1800, loops=SMALL_CMP,
  desc="generate_user_id: id registered, sum a_i*t_i = s, ids from different draws differ; refresh_id refuses an "
       "unknown id and keeps a known id of the right level",
  bounds="tracing level 1; s, tracers, RNG draws symbolic (Z_13)", covers=["id generated"])
# (three harnesses on `sign` -- f_verify_detects_value_changes, f_sign_order_matters, f_sign_reframing_chain_split,
# still in harness/primitives_model.rs -- exhausted 36 GB both over the oracle and with Kmac stubbed to a ghost byte
# stream: the per-field `serialize()` calls through Serializer's Zeroizing<Vec<u8>> dominate. Not registered.)

H("f_sign_stream_layout", "primitives_model", ["C08"], "quick", build="model", unwind=4, timeout=1500, loops=SMALL_CMP,
  desc="what sign() feeds to the MAC for the key {[n]:[k]} with marker a: exactly the 3 bytes a, n, k (Kmac::update stubbed "
       "to a ghost byte stream) -- i.e. markers, names and secrets are concatenated without any length framing",
  bounds="1 marker, 1 right with a 1-byte name, 1 classic secret; all values symbolic", covers=["signed"])
H("f_sign_reframing_name_vs_chain", "primitives_model", ["C08"], "quick", build="model", unwind=4, timeout=1500, loops=SMALL_CMP,
  desc="the key {'':[x,k]} (empty name, chain of 2) must NOT feed the MAC the bytes a, x, k that the different key "
       "{[x]:[k]} feeds it (f_sign_stream_layout): same MAC input = same signature for two different arrangements",
  bounds="1 marker, empty right name, chain of 2 classic secrets; all values symbolic", covers=["signed"])

# ================================================================ key layer over models (no hashing)
KL = "master key built by struct literal: "
_k = dict(build="model", timeout=900, loops=SMALL_CMP)
for n, m, a, b, tier, props in [
        ("k_refresh_m1_u00", 1, 0, 0, "thorough", ["C04", "C05"]), ("k_refresh_m2_u11", 2, 1, 1, "quick", ["C04"]),
        ("k_refresh_m1_u11", 1, 1, 1, "thorough", ["C05"]), ("k_refresh_m1_u12", 1, 1, 2, "quick", ["C05"]),
        ("k_refresh_m2_u13", 2, 1, 3, "quick", ["C04", "C05"]), ("k_refresh_m1_u02", 1, 0, 2, "quick", ["C05"]),
        ("k_refresh_m3_u12", 3, 1, 2, "quick", ["C04"]), ("k_refresh_m3_u22", 3, 2, 2, "thorough", ["C04"]),
        ("k_refresh_m2_u22", 2, 2, 2, "thorough", ["C05"]), ("k_refresh_m2_u23", 2, 2, 3, "thorough", ["C05"]),
        ("k_refresh_m2_u02", 2, 0, 2, "thorough", ["C04", "C05"]), ("k_refresh_m2_u11_hyb", 2, 1, 1, "thorough", ["C04", "C11"]),
        ("k_refresh_m1_u12_hyb", 1, 1, 2, "thorough", ["C05", "C11"])]:
    H(n, "keys_model", props, tier, unwind=5, covers=["refreshed chain non-empty"],
      desc="refresh_coordinate_keys: refreshed chain starts with the newest master secret, holds only secrets still in "
           "the master chain, keeps every shared secret",
      bounds=KL + "1 right; history of 4 pairwise distinct symbolic secrets h0..h3; master chain h[0..%d], "
                  "user chain h[%d..=%d]" % (m, a, b), **_k)
H("k_refresh_drops_unknown_right", "keys_model", ["C05", "C03"], "quick", unwind=4, covers=["one chain left"],
  desc="refresh_coordinate_keys drops a right the master key no longer has, keeps the other",
  bounds=KL + "1 right in the master key, user key with 2 rights; symbolic secrets", **_k)
for n, ln, tier in [("k_rekey_chain1", 1, "quick"), ("k_rekey_chain2", 2, "quick")]:  # chain2 moved to quick: seed C06-2
    H(n, "keys_model", ["C06", "C04", "C11", "C09"], tier, unwind=4,
      covers=["right was disabled before the rekey", "hybridized right"],
      desc="rekey of a held right: exactly one secret prepended, same flavour, SAME activation flag; older secrets untouched",
      bounds=KL + "1 right, chain of %d, activation flag and flavour symbolic, RNG symbolic" % ln, **_k)
H("k_rekey_chain2_mixed", "keys_model2", ["C06", "C11", "C04"], "quick", unwind=4,
  covers=["front disabled, older secret still flagged activated", "front classic, older secret hybridized"],
  desc="rekey from an arbitrary 2-secret chain: the new secret inherits flag and flavour of the FRONT (not of an older "
       "secret); older secrets untouched",
  bounds=KL + "1 right, chain of 2, both activation flags and both flavours symbolic, RNG symbolic", **_k)
H("k_update_swaps_a_right", "keys_model2", ["C05", "C03", "C11"], "quick", unwind=4,
  covers=["hybridized right added while a classic one is removed"],
  desc="update_msk removing one right while adding another in the same update: the right outside the structure is dropped, "
       "the kept chain is intact, the new right is activated with the hinted flavour",
  bounds=KL + "2 rights before (chains of 2 and 1), universe = {kept right, new right}; flavours and hint symbolic", **_k)
H("k_prune_chain2_mixed", "keys_model2", ["C05", "C06"], "quick", unwind=5,
  covers=["front disabled, pruned secret was flagged activated", "front classic, pruned secret was hybridized"],
  desc="prune from an arbitrary state: exactly the front stays with its own flag and flavour; the other right is untouched",
  bounds=KL + "2 rights x 2 secrets, all 4 activation flags and all 4 flavours symbolic", **_k)
for _n, _t in [("k_rekey_first_of_two_rights", "quick"), ("k_rekey_second_of_two_rights", "quick")]:
    H(_n, "keys_model2", ["C06", "C11"], _t, unwind=4,
      covers=["one right disabled, the other activated", "one right hybridized, the other classic"],
      desc="rekey of one of two rights: the other chain is untouched, flags / flavours do not leak between rights",
      bounds=KL + "2 rights x 1 secret, all flags and flavours symbolic", **_k)
H("k_mpk_publishes_activated_fronts", "keys_model", ["C06", "C04", "C11", "C17"], "thorough", unwind=4, covers=["one right disabled"], seedable=False,
  desc="mpk(): publishes h*front.sk with the front's flavour iff the FRONT is activated; tracers published in order",
  bounds=KL + "2 rights (chains of 2 and 1), activation flags and flavour symbolic", **dict(_k, timeout=1500))
H("k_mpk_front_single_right", "keys_model", ["C06", "C04", "C11"], "quick", unwind=4, covers=["front disabled, older secret activated"],
  desc="mpk(): one right, chain of 2: key published iff the FRONT secret is activated, and it is the front's image",
  bounds=KL + "1 right, chain of 2, front flag symbolic", **_k)
for n, tier in [("k_rekey_unknown_last", "quick"), ("k_rekey_unknown_first", "thorough")]:
    H(n, "keys_model", ["C10", "C09"], tier, unwind=4, covers=["reached"],
      desc="rekey over {held, unknown}: Err, and no right was rotated (both processing orders)",
      bounds=KL + "1 right; request of 2 rights, one unknown", **_k)
for n, tier in [("k_prune_chain1", "thorough"), ("k_prune_chain2", "thorough"), ("k_prune_chain3", "quick")]:
    H(n, "keys_model", ["C05"], tier, unwind=5, covers=["reached"],
      desc="prune leaves exactly the newest secret (flag kept) and does not touch other rights",
      bounds=KL + "pruned chain of %s, a second right with 2 secrets" % n[-1], **_k)
H("k_update_existing_right", "keys_model", ["C06", "C05", "C11", "C03"], "quick", unwind=4,
  covers=["right disabled by the update", "hybridization dropped"],
  desc="update_msk: flag of an existing right recomputed from the structure, hybridization kept only if still asked "
       "for, chain preserved; a right outside the universe is dropped",
  bounds=KL + "2 rights, old flag/flavour and new hint/status symbolic", **_k)
H("k_update_new_right", "keys_model", ["C11", "C09"], "quick", unwind=4, covers=["hybridized new right"],
  desc="update_msk: a new right is born activated with the flavour of its hint",
  bounds=KL + "empty master key, 1 new right, hint symbolic", **_k)
for n, tier in [("k_update_fails_bad_first", "quick"), ("k_update_fails_bad_last", "thorough")]:
    H(n, "keys_model", ["C10", "C09"], tier, unwind=4, covers=["reached"],
      desc="update_msk with a right born DecryptOnly: Err, and the master secrets are exactly as before",
      bounds=KL + "1 right with 2 secrets; universe of 2 rights, both processing orders", **_k)
H("k_keygen_registers_valid_id", "keys_model", ["C17", "C09", "C04"], "quick", unwind=4, covers=["reached"],
  desc="usk_keygen: Ok; id registered and satisfying the tracing relation; tracer points embedded in order; exactly the newest secret of the right",
  bounds=KL + "1 right with 2 secrets, tracers (1,2), binding scalar and RNG symbolic", **dict(_k, timeout=1500))
# (k_keygen_unknown_right_atomic in harness/keys_model.rs timed out at 1500 s on the error path; not registered)
_heavy = dict(build="model", timeout=1800, loops=SMALL_CMP, heavy=True)
H("k_refresh_ok_keep", "keys_model", ["C09", "C04", "C17"], "quick", unwind=4, covers=["reached"],
  desc="refresh(keep_old=true) of an issued key after a rekey: Ok, id kept, newest secret first, old one kept",
  bounds=KL + "1 right with 2 secrets, registered id (concrete markers), symbolic secrets", **_heavy)
H("k_refresh_unknown_id_keep", "keys_model", ["C10", "C17", "C08"], "quick", unwind=4, covers=["reached"],
  desc="refresh of a key whose id is not registered: Err, user key (id, secrets) and master key unchanged",
  bounds=KL + "1 right, id not in the registered set (concrete markers), symbolic secrets", **_heavy)
H("k_refresh_only_right_deleted_nokeep", "keys_model", ["C09", "C05"], "quick", unwind=4, covers=["reached"],
  desc="refresh(keep_old=false) of an issued key whose only right was deleted from the master key: Ok, right dropped",
  bounds=KL + "no right left in the master key, user key with 1 right (the empty right), registered concrete id", **_heavy)
# (k_refresh_ok_nokeep, k_refresh_deleted_keep, k_refresh_deleted_nokeep, k_refresh_unknown_id_nokeep in
# harness/keys_model.rs exceed 36 GB since the fix: commits clone the user key's secrets; not registered)

# ================================================================ parser (real build)
H("q_paren_offset_is_byte_offset", "access_policy", ["C15"], "quick", build="real", unwind=6, timeout=900,
  desc="find_matching_closing_parenthesis returns a byte offset on a char boundary pointing at the matching ')'",
  bounds="every valid UTF-8 string of <= 4 bytes")
# (q_attr_split_and_trim in harness/access_policy.rs -- QualifiedAttribute::try_from on every UTF-8 string <= 5 bytes -- timed
# out at 1800 s; not registered)

# ================================================================ serialization (model build)
# (round-trip harnesses z_xenc/z_usk/z_msk/z_mpk_roundtrip, x_header_frames and the parser harnesses u_parse_* are in
# harness/serialization_model.rs; every one of them timed out at 1500 s: Serializer/Deserializer go through
# Zeroizing<Vec<u8>> / io::Read on heap buffers. Not registered; C12 and C13 are not applicable.)
_z = dict(build="model", timeout=900, loops=CMP34)
for _n, _L, _tier in [("u_parse_userid", 6, "quick"), ("u_parse_tpk", 6, "quick")]:
    H(_n, "serialization_model", ["C14"], _tier, unwind=4, covers=["some input parses", "some input is rejected"], seedable=False,
      desc="T::read on arbitrary bytes: no panic, loops end, Vec::with_capacity requests stay proportional to the input",
      bounds="every byte string of <= %d bytes" % _L, **dict(_z, timeout=1500))
H("u_use_degenerate_values", "serialization_model", ["C14"], "quick", unwind=4,
  covers=["parsed an encapsulation without traps"],
  desc="values only a parser can build (no trap, empty id, no tracer): read succeeds and the tracing_level()/count() "
       "accessors do not panic",
  bounds="3 concrete degenerate encodings, symbolic tag", **_z)

# ================================================================ policy layer (model build)
_p = dict(build="model", timeout=1500, loops=[[r"^memcmp$", 6]])
H("e_dict_remove_preserves_order", "policy_model", ["C03"], "quick", unwind=5, covers=["middle entry removed"],
  desc="Dict::remove / update_key keep the relative order and the values of the other entries and the index invariant",
  bounds="Dict<u8,u8> with 3 entries, symbolic keys/values, symbolic removed key", **_p)
# (e_attribute_ids_never_shared in harness/policy_model.rs timed out at 1500 s: String-keyed maps of maps; not registered)
# (s_restrict_hierarchy_and_anarchy, e_hierarchy_add_after_and_errors, q_dnf_* in harness/policy_model.rs: String-keyed
# Dict / boxed policy trees; all timed out at 1500 s. Not registered.)
H("h_bitor_tables", "policy_model", ["C11", "C06"], "quick", unwind=2, covers=["reached"],
  desc="EncryptionHint::bitor / AttributeStatus::bitor / bool conversions: full truth tables (hint OR, status AND)",
  bounds="all 4 x 4 combinations (symbolic)", **_p)

# development-only entries (not in CHECKS / MANIFEST): harnesses that did not fit, kept reachable for profiling
for _n in ["z_xenc_roundtrip", "z_usk_roundtrip", "z_msk_roundtrip", "z_mpk_roundtrip", "x_header_frames",
           "u_parse_xenc", "u_parse_usk"]:
    H(_n, "serialization_model", ["DEV"], "quick", build="model", unwind=4, timeout=1500, loops=CMP34, desc="dev", bounds="dev")
for _n in ["zn_msk_flags_roundtrip", "zn_usk_roundtrip", "zn_mpk_roundtrip", "zn_xenc_roundtrip"]:
    H(_n, "serialization_narrow", ["DEV"], "quick", build="model", unwind=4, timeout=900, loops=CMP34, desc="dev", bounds="dev")
_WIRE = ("explicit wire image W(v) of a minimal shape: no id marker / tracing point / tracer / user, one right with the empty "
         "name and a chain of 2 revisions (newest classic, oldest hybridized), no trailing signature / signing key, empty "
         "access structure; every secret value%s a solver variable")
H("zr_usk_min_read", "serialization_min", ["C13"], "quick", build="model", unwind=4, timeout=900, loops=CMP34,
  covers=["two different revisions"],
  desc="UserSecretKey::read(W(v)) consumes every byte and returns v: chain order, flavour and value of each revision",
  bounds=_WIRE % "")
# (zr_xenc_classic_read -- classic, 2 traps, 2 right-encapsulations, 85 bytes -- passed 9.6 GB without finishing in 500 s: DEV)
H("zr_xenc_classic_read", "serialization_min2", ["DEV"], "quick", build="model", unwind=4, timeout=900, loops=CMP34, desc="dev", bounds="dev")
H("zr_xenc_hybrid_read", "serialization_min2", ["C13", "C11"], "quick", build="model", unwind=4, timeout=900, loops=CMP34,
  covers=["reached"],
  desc="XEnc::read(W(v)) for a hybridized encapsulation consumes every byte and returns v with the hybridized flavour",
  bounds="explicit wire image: 16-byte tag, 1 trap, hybridized, 1 right-encapsulation (4-byte ideal-KEM encapsulation + 32 bytes); every value symbolic")
H("zr_header_metadata_read", "serialization_min2", ["C13"], "quick", build="model", unwind=4, timeout=900, loops=CMP34,
  covers=["reached"],
  desc="EncryptedHeader::read: an empty metadata vector on the wire reads back as absent metadata, one byte of metadata reads back as that byte; every byte consumed",
  bounds="explicit wire images over the smallest encapsulation (no trap, no right-encapsulation): tag and metadata byte symbolic")
H("zr_right_public_key_read", "serialization_min3", ["C13", "C11"], "quick", build="model", unwind=4, timeout=600, loops=CMP34,
  covers=["reached"],
  desc="RightPublicKey::read(W(v)), both flavours: every byte consumed, point, ideal-KEM key and flavour as on the wire",
  bounds="explicit wire images of a classic (2 bytes) and a hybridized (4 bytes) right public key; all values symbolic")
H("zr_userid_tpk_order_read", "serialization_min3", ["C13", "C17"], "quick", build="model", unwind=5, timeout=600, loops=CMP34,
  covers=["distinct first and last element"],
  desc="UserId::read / TracingPublicKey::read on a 3-element wire image: every byte consumed, first and last element in wire order",
  bounds="explicit wire image: count 3 + 3 canonical elements, all symbolic")
# (zw_usk_min_write, zr_msk_min_read, zw_msk_min_write -- the write half and the master-key halves on the same minimal shape --
# passed 12-22 GB without finishing in 830 s; development entries)
for _n in ["zw_usk_min_write", "zr_msk_min_read", "zw_msk_min_write"]:
    H(_n, "serialization_min", ["DEV"], "quick", build="model", unwind=4, timeout=900, loops=CMP34, desc="dev", bounds="dev")
for _n in ["zr_usk_read_layout", "zw_usk_write_layout", "zr_msk_read_layout"]:
    H(_n, "serialization_layout", ["DEV"], "quick", build="model", unwind=4, timeout=1200, loops=CMP34, desc="dev", bounds="dev")
for _n in ["f_verify_detects_value_changes", "f_sign_order_matters", "f_sign_reframing_chain_split"]:
    H(_n, "primitives_model", ["DEV"], "quick", build="model", unwind=4, timeout=1500, loops=SMALL_CMP, desc="dev", bounds="dev")

CHECKS = {
    "DEV": dict(bounds_note="development only", outside="-"),
    "ALL": dict(bounds_note="development only: every registered harness (use with --only)", outside="-"),
    "C01": dict(bounds_note="L-kem over models (1 target x 1 secret, tracing level 1) + L-iter on RevisionVec<u8,u8> shapes",
                outside="policy expansion (rights of user/encryption policies), >1 target, real curves / ML-KEM / Keccak"),
    "C02": dict(bounds_note="S-kem over models: 1 target, user key with 1 non-matching secret (classic key; hybridized key against a classic encapsulation)",
                outside="policy expansion / Dimension::restrict (harness timed out), several rights per key, real primitives"),
    "C03": dict(bounds_note="Dict<u8,u8> with 3 entries (remove / rename); key layer drops rights outside the structure (refresh, update_msk)",
                outside="attribute id allocation in AccessStructure::add_attribute (harness times out; defect found by reading, fixed, demonstrated natively), hierarchies with `after`, interleaving with encapsulations"),
    "C04": dict(bounds_note="RevisionVec shapes <= 3 chains x <= 3; refresh_coordinate_keys over histories of 4 secrets; rekey/mpk on 1-2 rights",
                outside="more than 2 rights per key, chains longer than 3, end-to-end decaps after refresh (composition argued in DESIGN)"),
    "C05": dict(bounds_note="prune on chains of 1..3; refresh_coordinate_keys on every (master, user) segment pair listed; update_msk with 2 rights",
                outside="longer histories, deletion through the access structure (policy layer), end-to-end decaps"),
    "C06": dict(bounds_note="one step from an arbitrary state: rekey, update_msk, mpk, MSK round trip, with symbolic activation flags",
                outside="encaps error path through the policy layer; histories are covered inductively per operation, not enumerated"),
    "C07": dict(bounds_note="single-component tamper (tag byte / masked-seed byte / trap) of a classic 1-target encapsulation",
                outside="hybridized encapsulations, several targets, structural rearrangements (swap/drop/duplicate), AES-GCM layer"),
    "C08": dict(bounds_note="the byte stream sign() feeds to the MAC for two one-right keys (one sign call per query); refresh of a key whose id is not registered",
                outside="verify() on altered signatures (KMAC is a trusted PRF), hybridized secrets, several rights, keys of another master key"),
    "C09": dict(bounds_note="error/success contract of rekey, update_msk, refresh, select_subkeys on 1-2 rights",
                outside="AccessStructure edit contracts, usk_keygen, every reachable state (states of the stated shapes only)"),
    "C10": dict(bounds_note="every failing step of rekey / update_msk / refresh(unknown id) in both processing orders",
                outside="failures caused by serialization errors (unreachable), states with >2 rights"),
    "C11": dict(bounds_note="hint algebra tables; flavour through rekey/update/mpk/serialization; encapsulation mode selection",
                outside="combine() over a structure (policy layer), E_j bound into the tag for hybridized encapsulations"),
    "C13": dict(bounds_note="read halves only, minimal shapes, against explicit wire images W(v): UserSecretKey (one right with the empty name, chain of 2 revisions: newest classic, oldest hybridized), XEnc (hybridized, 1 trap, 1 right-encapsulation), EncryptedHeader (empty metadata vector = absent metadata; 1 byte of metadata), RightPublicKey (both flavours), UserId and TracingPublicKey (3 elements, order) -- every byte consumed, every field, order and flavour as on the wire; all values symbolic",
                outside="every write half and length() (harnesses time out), MasterSecretKey and MasterPublicKey (time out), classic XEnc with 2 right-encapsulations (times out), CleartextHeader, AccessStructure / Dimension; ids, tracing points, right names, trailing signature; more than one right, chains > 2; use of a deserialized key in later operations; bytes of the pinned release beyond the layouts W spelled out in the harnesses"),
    "C14": dict(bounds_note="UserId / TracingPublicKey parsers on every byte string <= 6 bytes; accessors and decaps on degenerate parsed values; revision iterator on a key without chains",
                outside="XEnc / USK parsers beyond the thorough-tier lengths, MPK/MSK/AccessStructure/EncryptedHeader parsers, read_vec's vec![0; len] in the dependency, wall-clock/RSS of a real process"),
    "C15": dict(bounds_note="find_matching_closing_parenthesis on all UTF-8 strings <= 4 bytes",
                outside="AccessPolicy::parse itself, QualifiedAttribute::try_from and to_dnf equivalence (harnesses timed out), precedence"),
    "C16": dict(bounds_note="two c_encaps calls with different seeds (1 target); two consecutive generate_user_id calls with symbolic RNG",
                outside="AEAD nonce freshness, rekey freshness, statistical quality of the CSPRNG, threads"),
    "C18": dict(bounds_note="full_decaps on an honest classic 1-target encapsulation, master key with that right (flag symbolic); thorough tier: 2 targets, master key with both rights (both flags symbolic)",
                outside="several revisions per right, more than 2 targets, hybridized, pruned or deleted rights, the recaps = full_decaps + encaps composition"),
    "C17": dict(bounds_note="generate_user_id / refresh_id with tracing level 1; tracers in mpk; ids through MSK/USK round trips",
                outside="tracing levels > 1, histories of several keys"),
}


def harness_id(h):
    return SITES[HARNESSES[h]["site"]]["modpath"] + "::" + h


def sites_for(hs):
    out = []
    for h in hs:
        s = HARNESSES[h]["site"]
        if s not in out:
            out.append(s)
    return out


def select(prop, tier, seed=0):
    names = [h for h, s in HARNESSES.items() if prop in s["props"] or (prop == "ALL" and "DEV" not in s["props"])]
    quick = [h for h in names if HARNESSES[h]["tier"] == "quick"]
    thorough = [h for h in names if HARNESSES[h]["tier"] == "thorough"]
    if tier == "thorough":
        return quick + thorough
    # VERIF_SEED rotates one thorough-tier harness into the quick set (it never replaces a symbolic variable)
    extra = [h for h in thorough if HARNESSES[h].get("seedable", True) and not HARNESSES[h].get("heavy")]
    if extra and seed:
        quick = quick + [extra[seed % len(extra)]]
    return quick


def assumptions_for(h):
    s = HARNESSES[h]
    out = list(COMMON_ASSUMPTIONS) + WRAP_ASSUMPTIONS
    out += s.get("assumptions", [])
    if s.get("build", "real") == "model":
        out += MODEL_ASSUMPTIONS
    return out
