"""Registry: build configurations, injection sites, harnesses, checks."""

JOBS = 8          # concurrent CBMC processes per check (memory bound: winners use 1-3 GB)
MEM_GB = 20       # RLIMIT_AS per process

GUARD = "cosmian_cover_crypt_verif"

BUILDS = {
    # the crate exactly as users build it (default features)
    "real": {"cargo_args": []},
    # the crate's own logic over model leaves (feature added by the guarded hook commit in /repo)
    "model": {"cargo_args": ["--no-default-features", "--features", GUARD]},
}

# Where harness modules are injected: `parent` gets `#[cfg(kani)] mod verif_k;` appended, the harness file is
# copied next to it. Child modules see the private items of their parent.
SITES = {
    "revision_vec": dict(file="revision_vec.rs", parent="src/data_struct/revision_vec.rs",
                         modpath="data_struct::revision_vec::verif_k"),
}

COMMON_ASSUMPTIONS = [
    "Kani 0.68 / CBMC 6.11 / cadical are sound for the Rust semantics they model (dev-profile MIR, overflow checks on)",
    "bounded model checking: the claim covers exactly the shapes/sizes listed in 'bounds'; unwinding assertions are on",
]

HARNESSES = {}


def H(name, site, props, tier="quick", **kw):
    HARNESSES[name] = dict(site=site, props=props, tier=tier, **kw)


# ---------------------------------------------------------------- RevisionVec (C04 R-iter, C01 L-iter, C14 U-use)
_riter_funcs = "RevisionVec::revisions, RevisionIterator::next, RevisionVec::insert_new_chain"
for shape, tier in [("1", "quick"), ("2", "quick"), ("1_1", "quick"), ("2_1", "quick"), ("1_2", "quick"),
                    ("2_2", "quick"), ("3_1", "thorough"), ("1_3", "thorough"), ("2_3", "thorough"),
                    ("1_2_1", "thorough"), ("2_1_2", "thorough"), ("1_1_2", "thorough")]:
    H("riter_shape_" + shape, "revision_vec", ["C04", "C01"], tier,
      desc="revisions() yields, at depth d, exactly the d-th element of every chain that has one, then ends",
      bounds="RevisionVec<u8,u8>, chain lengths (%s) concrete, all keys and element values symbolic" % shape.replace("_", ","),
      unwind=5, timeout=900, covers=["all depths visited"])
H("riter_zero_chains_terminates", "revision_vec", ["C14", "C04"], "quick",
  desc="revisions() on a key with zero chains ends immediately (no endless Some([]))",
  bounds="empty RevisionVec<u8,u8>", unwind=3, timeout=300, covers=["reached"])

CHECKS = {
    "C04": dict(
        bounds_note="R-iter: RevisionVec<u8,u8> instantiation, <=3 chains x <=3 elements, shape concrete per harness",
        outside="chains longer than 3, more than 3 chains, the RightSecretKey instantiation of the iterator",
        assumptions=[],
    ),
}


def harness_id(h):
    return SITES[HARNESSES[h]["site"]]["modpath"] + "::" + h


def sites_for(hs):
    out = []
    for h in hs:
        s = HARNESSES[h]["site"]
        if s not in out:
            out.append(s)
    return out


def select(prop, tier, seed=0):
    names = [h for h, s in HARNESSES.items() if prop in s["props"]]
    quick = [h for h in names if HARNESSES[h]["tier"] == "quick"]
    thorough = [h for h in names if HARNESSES[h]["tier"] == "thorough"]
    if tier == "thorough":
        return quick + thorough
    # VERIF_SEED rotates one thorough-tier harness into the quick set (it never replaces a symbolic variable)
    extra = [h for h in thorough if HARNESSES[h].get("seedable", True) and HARNESSES[h].get("timeout", 600) <= 900]
    if extra and seed:
        quick = quick + [extra[seed % len(extra)]]
    return quick


def assumptions_for(h):
    s = HARNESSES[h]
    out = list(COMMON_ASSUMPTIONS)
    out += s.get("assumptions", [])
    if s.get("build", "real") == "model":
        out += MODEL_ASSUMPTIONS
    return out


MODEL_ASSUMPTIONS = []
