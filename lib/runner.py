#!/usr/bin/env python3
"""Runner for the solver-based (Kani/CBMC) checks of Cosmian/cover_crypt.

check <PROPERTY> [--tier quick|thorough]

Per run:
  1. copy /repo's *working tree* to a scratch dir outside /repo and /verif,
  2. inject the harness modules (files under /verif/harness) as `#[cfg(kani)]`
     child modules of the files whose private items they drive,
  3. run `cargo kani` (CBMC + cadical) on the selected harnesses,
  4. replay every counterexample natively (Kani concrete playback) before
     reporting it, honour /verif/known_findings.json,
  5. write /verif/evidence/<id>.json, remove the scratch copy.

Exit codes: 0 held within bounds; 1 VIOLATION (replayed); 2 inconclusive /
broken (timeout, OOM, vacuous harness, non-reproducing counterexample).
"""
import argparse
import fcntl
import json
import os
import re
import resource
import shutil
import subprocess
import sys
import time

VERIF = os.path.dirname(os.path.dirname(os.path.abspath(__file__)))
sys.path.insert(0, os.path.join(VERIF, "lib"))
import registry  # noqa: E402

REPO = os.environ.get("VERIF_REPO", "/repo")
SCRATCH = os.environ.get("VERIF_SCRATCH", "/var/tmp/verif-cc")
GUARD = "cosmian_cover_crypt_verif"


def log(*a):
    print(*a, flush=True)


def sh(cmd, cwd=None, env=None, timeout=None, stdout=None):
    return subprocess.run(cmd, cwd=cwd, env=env, timeout=timeout, stdout=stdout or subprocess.PIPE,
                          stderr=subprocess.STDOUT, text=True)


REAL_KANI = os.environ.get("VERIF_REAL_KANI", "/root/.kani/kani-0.68.0")


def kani_overlay():
    """KANI_HOME overlay: Kani's own bundle with (1) `cbmc` replaced by lib/cbmc_wrap.py (per-loop bounds, body
    cuts) and (2) library/kani/kani_lib.c replaced by lib/kani_lib/kani_lib.c (size-class allocator)."""
    home = os.path.join(SCRATCH, "kani-home")
    k = os.path.join(home, os.path.basename(REAL_KANI))
    wrapper = os.path.join(k, "bin", "cbmc")
    clib = os.path.join(k, "library", "kani", "kani_lib.c")
    want = "#!/bin/bash\nexec python3 %s \"$@\"\n" % os.path.join(VERIF, "lib", "cbmc_wrap.py")
    want_c = open(os.path.join(VERIF, "lib", "kani_lib", "kani_lib.c")).read()
    ok = (os.path.exists(wrapper) and open(wrapper).read() == want
          and os.path.exists(clib) and open(clib).read() == want_c
          and not os.path.islink(os.path.join(k, "bin", "kani-driver")))
    if not ok:
        shutil.rmtree(home, ignore_errors=True)
        os.makedirs(os.path.join(k, "bin"))
        for n in os.listdir(REAL_KANI):
            if n not in ("bin", "library"):
                os.symlink(os.path.join(REAL_KANI, n), os.path.join(k, n))
        for n in os.listdir(os.path.join(REAL_KANI, "bin")):
            if n == "kani-driver":
                # a real copy: the driver locates library/kani/kani_lib.c relative to its own (resolved) path
                shutil.copy2(os.path.join(REAL_KANI, "bin", n), os.path.join(k, "bin", n))
            elif n != "cbmc":
                os.symlink(os.path.join(REAL_KANI, "bin", n), os.path.join(k, "bin", n))
        os.makedirs(os.path.join(k, "library", "kani"))
        for n in os.listdir(os.path.join(REAL_KANI, "library")):
            if n != "kani":
                os.symlink(os.path.join(REAL_KANI, "library", n), os.path.join(k, "library", n))
        for n in os.listdir(os.path.join(REAL_KANI, "library", "kani")):
            if n != "kani_lib.c":
                os.symlink(os.path.join(REAL_KANI, "library", "kani", n), os.path.join(k, "library", "kani", n))
        open(clib, "w").write(want_c)
        open(wrapper, "w").write(want)
        os.chmod(wrapper, 0o755)
    return home


def base_env(outdir=None):
    env = dict(os.environ)
    env["CARGO_NET_OFFLINE"] = "true"
    env.pop("RUSTFLAGS", None)
    env["KANI_HOME"] = kani_overlay()
    env["VERIF_REAL_KANI_BIN"] = os.path.join(REAL_KANI, "bin")
    cfg = os.path.join(SCRATCH, "wrap-cfg.json")
    wc = dict(registry.WRAP_CFG)
    wc["per_harness"] = {h: {"unwindset": spec["loops"]} for h, spec in registry.HARNESSES.items() if spec.get("loops")}
    json.dump(wc, open(cfg, "w"))
    env["VERIF_WRAP_CFG"] = cfg
    if outdir:
        env["VERIF_WRAP_LOG"] = os.path.join(outdir, "wrap.log")
    return env


def limit_mem(gb):
    def f():
        lim = int(gb * (1 << 30))
        resource.setrlimit(resource.RLIMIT_AS, (lim, lim))
    return f


def prepare_work(work, sites):
    """Fresh copy of /repo's working tree + harness injection."""
    if os.path.exists(work):
        shutil.rmtree(work)
    os.makedirs(os.path.dirname(work), exist_ok=True)
    r = sh(["rsync", "-a", "--exclude", "/target", "--exclude", ".git", REPO + "/", work + "/"])
    if r.returncode != 0:
        raise RuntimeError("rsync failed: " + r.stdout)
    for s in sites:
        site = registry.SITES[s]
        parent = os.path.join(work, site["parent"])
        modname = site.get("modname", "verif_k")
        if os.path.basename(parent) in ("mod.rs", "lib.rs"):
            moddir = os.path.dirname(parent)
        else:
            moddir = parent[:-3]
        os.makedirs(moddir, exist_ok=True)
        text = open(os.path.join(VERIF, "harness", site["file"])).read()
        for inc in site.get("include", []):
            text = text + "\n" + open(os.path.join(VERIF, "harness", inc)).read()
        open(os.path.join(moddir, modname + ".rs"), "w").write(text)
        # model-tier harness modules only exist in the model build (a check may mix both builds in one copy)
        # (decided by the builds of the harnesses registered at the site, not by the site's name: a site whose harnesses
        # all need the model build must not be compiled into the real build)
        builds = {spec.get("build", "real") for spec in registry.HARNESSES.values() if spec["site"] == s}
        gate = 'all(kani, feature = "%s")' % GUARD if builds == {"model"} else "kani"
        with open(parent, "a") as f:
            f.write("\n#[cfg(%s)]\nmod %s;\n" % (gate, modname))


def kani_cmd(build, target_dir, harness_ids, jobs, timeout_s, json_path, extra=None):
    cmd = ["cargo", "kani", "--target-dir", target_dir, "-Z", "unstable-options", "-Z", "stubbing",
           "--harness-timeout", "%ds" % timeout_s, "--output-format", "terse", "-j", str(jobs),
           "--export-json", json_path, "--exact"]
    cmd += registry.BUILDS[build]["cargo_args"] + registry.BUILDS[build].get("kani_args", [])
    for h in harness_ids:
        cmd += ["--harness", h]
    if extra:
        cmd += extra
    cmd += ["--cbmc-args"] + registry.CBMC_ARGS + os.environ.get("VERIF_CBMC_EXTRA", "").split()
    return cmd


def run_kani(work, build, harnesses, jobs, tier, outdir, tagname=None):
    """Runs the harnesses of one build configuration; returns dict harness-name -> result."""
    os.makedirs(outdir, exist_ok=True)
    target_dir = os.path.join(SCRATCH, "tgt-" + build)
    ids = {registry.harness_id(h): h for h in harnesses}
    tmax = max(registry.HARNESSES[h].get("timeout", 600) for h in harnesses)
    tagname = tagname or build
    json_path = os.path.join(outdir, "kani-%s.json" % tagname)
    if os.path.exists(json_path):
        os.remove(json_path)
    cmd = kani_cmd(build, target_dir, list(ids), jobs, tmax, json_path)
    logp = os.path.join(outdir, "kani-%s.log" % tagname)
    t0 = time.time()
    with open(logp, "w") as lf:
        try:
            p = subprocess.run(cmd, cwd=work, env=base_env(outdir), stdout=lf, stderr=subprocess.STDOUT,
                               preexec_fn=limit_mem(float(os.environ.get("VERIF_MEM_GB", registry.MEM_GB))),
                               timeout=tmax * 3 + 900)
            rc = p.returncode
        except subprocess.TimeoutExpired:
            rc = 124
    wall = time.time() - t0
    results = {}
    logtxt = open(logp, errors="replace").read()
    data = None
    if os.path.exists(json_path):
        try:
            data = json.load(open(json_path))
        except Exception as e:  # noqa
            data = None
    if data is None:
        # build failure or crash: everything inconclusive
        tail = "\n".join(logtxt.splitlines()[-40:])
        for h in harnesses:
            results[h] = dict(status="error", reason="no kani json (build failure?) rc=%s" % rc, log_tail=tail)
        return results, wall
    stats = {c["harness_id"]: c.get("cbmc_stats", {}) for c in data.get("cbmc", [])}
    errs = {c["harness_id"]: c for c in data.get("error_details", [])}
    seen = set()
    for r in data["verification_results"]["results"]:
        hid = r["harness_id"]
        if hid not in ids:
            continue
        h = ids[hid]
        seen.add(h)
        failed, covers, undet, funcs = [], {}, 0, set()
        n_checks = 0
        for c in r["checks"]:
            cat = c.get("category")
            st = c["status"]
            fn = c.get("function", "")
            if cat == "cover":
                covers[c["description"].strip('"')] = st
                continue
            n_checks += 1
            if fn and not fn.startswith(("std::", "core::", "alloc::", "kani::", "<std::", "<core::", "<alloc::")):
                funcs.add(re.sub(r"::\{closure.*$", "", fn))
            if st == "Failure":
                failed.append(dict(description=c["description"].strip('"'), function=fn,
                                   category=cat, location=c.get("location")))
            elif st not in ("Success", "Unreachable"):
                undet += 1
        st = r["status"]
        results[h] = dict(status="success" if st == "Success" else "failure", kani_status=st,
                          failed=failed, covers=covers, undetermined=undet, n_checks=n_checks,
                          duration_ms=r.get("duration_ms"), cbmc=stats.get(hid, {}),
                          functions=sorted(funcs), error=errs.get(hid))
    for h in harnesses:
        if h not in seen:
            reason = "harness missing from kani output (timeout/oom/crash)"
            m = re.search(r"(?s)(%s.{0,400})" % re.escape(h), logtxt)
            results[h] = dict(status="error", reason=reason)
    return results, wall


PLAYBACK_RE = re.compile(r"(?s)(#\[test\]\s*fn kani_concrete_playback_\w+\(\) \{.*?\n\})")


def replay(work, build, h, prop, outdir):
    """Concrete playback of a failing harness: returns (reproduced: bool|None, path)."""
    target_dir = os.path.join(SCRATCH, "tgt-" + build)
    hid = registry.harness_id(h)
    cmd = ["cargo", "kani", "--target-dir", target_dir, "-Z", "unstable-options", "-Z", "stubbing",
           "-Z", "concrete-playback", "--concrete-playback=print", "--exact", "--harness", hid,
           "--harness-timeout", "%ds" % (registry.HARNESSES[h].get("timeout", 600) * 2)]
    cmd += registry.BUILDS[build]["cargo_args"] + registry.BUILDS[build].get("kani_args", [])
    cmd += ["--cbmc-args"] + registry.CBMC_ARGS
    try:
        # (Kani turns formula slicing off to extract a trace: the playback solve needs far more memory than the check)
        p = subprocess.run(cmd, cwd=work, env=base_env(), stdout=subprocess.PIPE, stderr=subprocess.STDOUT,
                           text=True, preexec_fn=limit_mem(registry.REPLAY_MEM_GB),
                           timeout=registry.HARNESSES[h].get("timeout", 600) * 2 + 600)
    except subprocess.TimeoutExpired:
        return None, None, "playback generation timed out"
    tests = PLAYBACK_RE.findall(p.stdout)
    if not tests:
        open(os.path.join(outdir, "playback-%s.log" % h), "w").write(p.stdout)
        return None, None, "no concrete playback test printed"
    rdir = os.path.join(os.environ.get("VERIF_REPLAY_DIR", os.path.join(VERIF, "replays")), prop)
    os.makedirs(rdir, exist_ok=True)
    rpath = os.path.join(rdir, h + ".rs")
    site = registry.SITES[registry.HARNESSES[h]["site"]]
    header = ("// Concrete counterexample found by CBMC for harness `%s` (property %s).\n"
              "// Replay: append to the harness module `%s` (injected next to %s) and run\n"
              "//   cargo kani playback -Z concrete-playback -- kani_concrete_playback\n"
              "// or: /verif/bin/check %s --replay %s\n" % (hid, prop, site["file"], site["parent"], prop, rpath))
    body = "\n\n".join(tests[:1])
    open(rpath, "w").write(header + body + "\n")
    ok, out = run_playback(work, build, h, rpath)
    open(os.path.join(outdir, "playback-run-%s.log" % h), "w").write(out)
    return ok, rpath, out[-2000:]


def run_playback(work, build, h, rpath):
    """Natively executes the playback test; returns (reproduced, output). reproduced=True when the test panics."""
    site = registry.SITES[registry.HARNESSES[h]["site"]]
    parent = os.path.join(work, site["parent"])
    moddir = os.path.dirname(parent) if os.path.basename(parent) in ("mod.rs", "lib.rs") else parent[:-3]
    modfile = os.path.join(moddir, site.get("modname", "verif_k") + ".rs")
    text = open(rpath).read()
    m = PLAYBACK_RE.search(text)
    if not m:
        return None, "no playback test in " + rpath
    testname = re.search(r"fn (kani_concrete_playback_\w+)", m.group(1)).group(1)
    cur = open(modfile).read()
    if testname not in cur:
        open(modfile, "a").write("\n" + m.group(1) + "\n")
    cmd = ["cargo", "kani", "playback", "-Z", "concrete-playback"] + registry.BUILDS[build]["cargo_args"] + ["--", testname]
    env = base_env()
    env["CARGO_TARGET_DIR"] = os.path.join(SCRATCH, "tgt-playback-" + build)
    try:
        p = subprocess.run(cmd, cwd=work, env=env, stdout=subprocess.PIPE, stderr=subprocess.STDOUT, text=True,
                           timeout=1800)
    except subprocess.TimeoutExpired:
        # a native run that does not terminate is a reproduced hang
        return True, "native playback did not terminate within 1800 s (hang reproduced)"
    out = p.stdout
    if "Not enough det vals found" in out:
        # the native run needed more symbolic values than the counterexample recorded: it took another path than the
        # solver's trace (e.g. the file is replayed on a different tree) -- the counterexample is NOT reproduced
        return False, out
    if re.search(r"test result: FAILED", out) or re.search(r"panicked at", out):
        return True, out
    if re.search(r"test result: ok\. 1 passed", out):
        return False, out
    return None, out


def _hash_files(h, files):
    for f in files:
        h.update(f.encode())
        try:
            h.update(open(f, "rb").read())
        except OSError:
            h.update(b"<missing>")


def repo_key():
    """Content hash of /repo's working tree (sources, manifest, lock file)."""
    import hashlib
    h = hashlib.sha256()
    files = [os.path.join(REPO, "Cargo.toml"), os.path.join(REPO, "Cargo.lock")]
    for d, dn, fn in os.walk(os.path.join(REPO, "src")):
        dn[:] = sorted(dn)
        for f in sorted(fn):
            files.append(os.path.join(d, f))
    # paths are hashed relative to the repo root so that a copy of the tree elsewhere has the same key
    for f in files:
        h.update(os.path.relpath(f, REPO).encode())
        try:
            h.update(open(f, "rb").read())
        except OSError:
            h.update(b"<missing>")
    return h.hexdigest()


def tree_key(harness=None):
    """Content hash of everything the result of `harness` depends on: /repo's working tree, the harness source file
    (and its includes), its registry entry, the build/cut configuration and the tooling that shapes the goto program."""
    import hashlib
    h = hashlib.sha256()
    h.update(repo_key().encode())
    files = [os.path.join(VERIF, "lib", "cbmc_wrap.py"), os.path.join(VERIF, "lib", "kani_lib", "kani_lib.c")]
    if harness is not None:
        spec = registry.HARNESSES[harness]
        site = registry.SITES[spec["site"]]
        files += [os.path.join(VERIF, "harness", site["file"])] + [os.path.join(VERIF, "harness", i) for i in site.get("include", [])]
        h.update(json.dumps(spec, sort_keys=True).encode())
        h.update(json.dumps(site, sort_keys=True).encode())
    h.update(json.dumps([registry.WRAP_CFG, registry.CBMC_ARGS, registry.BUILDS, registry.MEM_GB], sort_keys=True).encode())
    _hash_files(h, files)
    return h.hexdigest()[:24]


def cache_get(key, h):
    p = os.path.join(SCRATCH, "cache", "%s-%s.json" % (key, h))
    if os.path.exists(p) and not os.environ.get("VERIF_NOCACHE"):
        try:
            r = json.load(open(p))
            r["cached"] = True
            return r
        except Exception:  # noqa
            return None
    return None


def cache_put(key, h, r):
    if r.get("status") not in ("success", "failure"):
        return
    if r.get("status") == "failure" and not r.get("failed"):
        return  # a crash / out-of-memory run without any decided failing check is not a result
    if r.get("undetermined") or any("unwinding assertion" in f["description"] for f in r.get("failed", [])):
        return
    d = os.path.join(SCRATCH, "cache")
    os.makedirs(d, exist_ok=True)
    json.dump(r, open(os.path.join(d, "%s-%s.json" % (key, h)), "w"))


def load_known():
    p = os.path.join(VERIF, "known_findings.json")
    if not os.path.exists(p):
        return []
    return [e for e in json.load(open(p)).get("findings", []) if e.get("status") == "known"]


def match_known(known, prop, h, failed_check):
    for e in known:
        if e["property"] != prop:
            continue
        if e.get("harness") and not re.fullmatch(e["harness"], h):
            continue
        if re.search(e["check"], failed_check["description"]):
            return e
    return None


def main():
    ap = argparse.ArgumentParser()
    ap.add_argument("prop")
    ap.add_argument("--tier", default=os.environ.get("VERIF_TIER", "quick"), choices=["quick", "thorough"])
    ap.add_argument("--replay", default=None, help="replay a stored counterexample file natively")
    ap.add_argument("--only", default=None, help="regex: restrict to matching harnesses (development)")
    ap.add_argument("--keep", action="store_true", help="keep the scratch copy (development)")
    ap.add_argument("--jobs", type=int, default=int(os.environ.get("VERIF_JOBS", registry.JOBS)))
    args = ap.parse_args()
    prop = args.prop
    seed = int(os.environ.get("VERIF_SEED", "0") or 0)
    t0 = time.time()
    os.makedirs(SCRATCH, exist_ok=True)
    lock = open(os.path.join(SCRATCH, "lock-" + prop), "w")
    fcntl.flock(lock, fcntl.LOCK_EX)
    if not os.environ.get("VERIF_NOLOCK"):
        runlock = open(os.path.join(os.environ.get("VERIF_LOCKDIR", SCRATCH), "lock-global"), "w")
        fcntl.flock(runlock, fcntl.LOCK_EX)  # CBMC is memory bound: one check at a time on this box

    if args.replay:
        h = os.path.basename(args.replay)[:-3]
        spec = registry.HARNESSES[h]
        work = os.path.join(SCRATCH, "work-%s" % prop)
        prepare_work(work, registry.sites_for([h]))
        ok, out = run_playback(work, spec.get("build", "real"), h, args.replay)
        print(out[-3000:])
        if not args.keep:
            shutil.rmtree(work, ignore_errors=True)
        if ok:
            print("VIOLATION property=%s replay=%s" % (prop, args.replay))
            return 1
        return 0 if ok is False else 2

    selected = registry.select(prop, args.tier, seed)
    if args.only:
        selected = [h for h in selected if re.search(args.only, h)]
    if not selected:
        log("no harness registered for %s" % prop)
        return 2
    outdir = os.path.join(SCRATCH, "out-%s" % prop)
    shutil.rmtree(outdir, ignore_errors=True)
    os.makedirs(outdir, exist_ok=True)
    work = os.path.join(SCRATCH, "work-%s" % prop)
    known = load_known()
    results = {}
    walls = {}
    try:
        prepare_work(work, registry.sites_for(selected))
        by_build = {}
        for h in selected:
            by_build.setdefault(registry.HARNESSES[h].get("build", "real"), []).append(h)
        key = repo_key()[:24]
        for build, hs in list(by_build.items()):
            fresh = []
            for h in hs:
                c = cache_get(tree_key(h), h)
                if c is not None:
                    results[h] = c
                else:
                    fresh.append(h)
            if len(fresh) < len(hs):
                log("[%s] build=%s: %d harness result(s) reused from this run's cache (identical /repo tree, harness and "
                    "tooling; /repo tree hash %s)" % (prop, build, len(hs) - len(fresh), key))
            by_build[build] = fresh
        for build, hs in by_build.items():
            light = [h for h in hs if not registry.HARNESSES[h].get("heavy")]
            heavy = [h for h in hs if registry.HARNESSES[h].get("heavy")]
            for group, jobs, tagname in ((light, args.jobs, build), (heavy, min(2, args.jobs), build + "-heavy")):
                if not group:
                    continue
                log("[%s] build=%s: %d harnesses (-j %d): %s" % (prop, tagname, len(group), jobs, " ".join(group)))
                res, wall = run_kani(work, build, group, jobs, args.tier, outdir, tagname)
                walls[tagname] = wall
                results.update(res)
                for h, r in res.items():
                    cache_put(tree_key(h), h, r)

        violations, known_hits, inconclusive, vacuous = [], [], [], []
        for h in selected:
            r = results[h]
            spec = registry.HARNESSES[h]
            if r["status"] == "error":
                inconclusive.append((h, r.get("reason", "")))
                continue
            unwind_fail = [f for f in r["failed"] if "unwinding assertion" in f["description"]]
            real_fail = [f for f in r["failed"] if "unwinding assertion" not in f["description"]]
            if unwind_fail:
                inconclusive.append((h, "unwinding assertion failed: bound too small (%d)" % len(unwind_fail)))
            if r["undetermined"] and not real_fail and not unwind_fail:
                inconclusive.append((h, "%d undetermined checks" % r["undetermined"]))
            if real_fail:
                unknown = []
                for f in real_fail:
                    e = match_known(known, prop, h, f)
                    if e:
                        known_hits.append((h, e, f))
                    else:
                        unknown.append(f)
                if unknown:
                    violations.append((h, unknown))
            elif not unwind_fail and r["kani_status"] != "Success":
                inconclusive.append((h, "kani status %s without failed check" % r["kani_status"]))
            # vacuity: every declared cover must be SATISFIED (only meaningful when nothing failed before it)
            if not real_fail and not unwind_fail:
                want = spec.get("covers")
                got = r["covers"]
                missing = [c for c, st in got.items() if st != "Satisfied"]
                if want is not None:
                    missing += [c for c in want if c not in got]
                if not got:
                    missing.append("<harness declares no cover witness>")
                if missing:
                    vacuous.append((h, missing))

        # replay counterexamples natively before reporting them
        confirmed, unconfirmed, unreplayed = [], [], []
        MAX_REPLAYS = int(os.environ.get("VERIF_MAX_REPLAYS", "2"))
        for h, fails in violations:
            if len(confirmed) >= MAX_REPLAYS:
                log("[%s] further counterexample in %s (not replayed, %d already confirmed): %s"
                    % (prop, h, len(confirmed), "; ".join(f["description"] for f in fails)))
                unreplayed.append((h, fails))
                continue
            build = registry.HARNESSES[h].get("build", "real")
            log("[%s] counterexample in %s: %s -- replaying natively" % (prop, h, "; ".join(f["description"] for f in fails)))
            if registry.HARNESSES[h].get("replay") == "none":
                confirmed.append((h, fails, None, "panic-free property: CBMC check failure inside std/dependency code; see log"))
                continue
            ok, rpath, out = replay(work, build, h, prop, outdir)
            if ok:
                confirmed.append((h, fails, rpath, out))
            else:
                unconfirmed.append((h, fails, rpath, out))

        wall = time.time() - t0
        ev = build_evidence(prop, args.tier, seed, selected, results, confirmed, unconfirmed, known_hits,
                            inconclusive, vacuous, wall)
        evdir = os.environ.get("VERIF_EVIDENCE_DIR", os.path.join(VERIF, "evidence"))
        os.makedirs(evdir, exist_ok=True)
        json.dump(ev, open(os.path.join(evdir, prop + ".json"), "w"), indent=1)

        for h, e, f in known_hits:
            print("KNOWN-FINDING: property=%s %s [harness %s: %s]" % (prop, e["what"], h, f["description"]))
        for h, fails, rpath, out in confirmed:
            for f in fails:
                log("  failed check in %s: %s (%s)" % (h, f["description"], f["function"]))
            print("VIOLATION property=%s replay=%s" % (prop, rpath or ("harness:" + h)))
        for h, fails, rpath, out in unconfirmed:
            log("NON-REPRODUCING counterexample in %s (encoding/stub error, not reported as violation): %s\n%s"
                % (h, "; ".join(f["description"] for f in fails), (out or "")[-1500:]))
        for h, why in inconclusive:
            log("INCONCLUSIVE %s: %s" % (h, why))
        for h, miss in vacuous:
            log("VACUOUS %s: cover witnesses not satisfied: %s" % (h, miss))
        n_ok = sum(1 for h in selected if results[h]["status"] == "success")
        log("[%s] tier=%s harnesses=%d ok=%d violations=%d known=%d inconclusive=%d vacuous=%d wall=%.0fs"
            % (prop, args.tier, len(selected), n_ok, len(confirmed), len(known_hits), len(inconclusive), len(vacuous), wall))
        if confirmed:
            return 1
        if unconfirmed or inconclusive or vacuous or unreplayed:
            return 2
        return 0
    finally:
        if not args.keep:
            shutil.rmtree(work, ignore_errors=True)
            # drop per-harness goto binaries of this crate; dependency artefacts stay cached
            for b in registry.BUILDS:
                d = os.path.join(SCRATCH, "tgt-" + b, "kani", "x86_64-unknown-linux-gnu", "debug", "build")
                if os.path.isdir(d):
                    for n in os.listdir(d):
                        if n.startswith("cosmian_cover_crypt"):
                            shutil.rmtree(os.path.join(d, n), ignore_errors=True)


def build_evidence(prop, tier, seed, selected, results, confirmed, unconfirmed, known_hits, inconclusive,
                   vacuous, wall):
    samples, functions, assumptions = [], set(), set()
    n_checks = n_ok_checks = 0
    solver_s = symex_s = 0.0
    nontrivial = 0
    vac = {h for h, _ in vacuous}
    inc = {h for h, _ in inconclusive}
    for h in selected:
        spec = registry.HARNESSES[h]
        r = results[h]
        for a in registry.assumptions_for(h):
            assumptions.add(a)
        if r["status"] == "error":
            samples.append(dict(harness=h, result="inconclusive", reason=r.get("reason")))
            continue
        functions.update(r["functions"])
        n_checks += r["n_checks"]
        n_ok_checks += r["n_checks"] - len(r["failed"]) - r["undetermined"]
        cb = r.get("cbmc") or {}
        solver_s += cb.get("runtime_decision_procedure_s", 0) or 0
        symex_s += (cb.get("runtime_symex_s", 0) or 0) + (cb.get("runtime_convert_ssa_s", 0) or 0)
        sat = [c for c, st in r["covers"].items() if st == "Satisfied"]
        if r["status"] == "success" and h not in vac and h not in inc and sat:
            nontrivial += 1
        samples.append(dict(harness=registry.harness_id(h), what=spec.get("desc", ""), bounds=spec.get("bounds", ""),
                            unwind=spec.get("unwind"), result=r["kani_status"], cbmc_checks=r["n_checks"],
                            failed_checks=[f["description"] for f in r["failed"]],
                            covers=r["covers"], solver_s=cb.get("runtime_decision_procedure_s"),
                            reused_from_cache=bool(r.get("cached")),
                            vccs=cb.get("vccs_generated"), wall_ms=r.get("duration_ms")))
    states = transitions = 0
    for h in selected:
        cb = (results[h].get("cbmc") or {}) if results[h]["status"] != "error" else {}
        states += int(cb.get("size_program_expression") or 0)
        transitions += int(cb.get("vccs_generated") or 0)
    ev = dict(
        property_id=prop, tier=tier, seed=seed, level="model_checking",
        coverage=dict(
            # model-checking keys, all measured by CBMC on this run (or on the cached run of the identical tree):
            # states = steps of the unrolled SSA program the symbolic execution produced ("size of program
            # expression"), transitions = verification conditions generated from it; every one of them is
            # decided for ALL values of the symbolic inputs, not enumerated
            states=max(states, 1), transitions=max(transitions, 1),
            traces_validated_against_impl=len(confirmed) + len(unconfirmed),
            evaluations=len(selected),
            distinct_nontrivial=nontrivial,
            rule=("one evaluation = one Kani proof harness = one bounded-model-checking query (CBMC, cadical) over the "
                  "crate compiled from /repo's working tree; it quantifies over ALL values of its kani::any() inputs within "
                  "the stated bounds. A harness counts as distinct and non-trivial when it is a different harness "
                  "function, CBMC finished (no timeout/OOM/unwinding failure), and every kani::cover! witness in it was "
                  "SATISFIED (the asserted region is reachable, i.e. the query is not vacuous)."),
            samples=samples,
            exhaustive=False,
            functions_encoded=sorted(functions),
            obligations=n_checks, discharged=n_ok_checks,
            solver_time_s=round(solver_s, 2), symex_time_s=round(symex_s, 2),
            inconclusive=[dict(harness=h, why=w) for h, w in inconclusive],
            vacuous=[dict(harness=h, covers=m) for h, m in vacuous],
            known_findings=[dict(harness=h, what=e["what"], check=f["description"]) for h, e, f in known_hits],
            non_reproducing=[dict(harness=h, checks=[f["description"] for f in fs]) for h, fs, _, _ in unconfirmed],
            checker_cmd="cargo kani (Kani 0.68.0, CBMC 6.11.0, cadical) -Z stubbing --exact --harness <id>",
            bounds_note=registry.CHECKS[prop].get("bounds_note", ""),
            outside_bounds=registry.CHECKS[prop].get("outside", ""),
        ),
        assumptions=sorted(assumptions) + registry.CHECKS[prop].get("assumptions", []),
        wall_s=round(wall, 1),
        violations=len(confirmed),
    )
    return ev


if __name__ == "__main__":
    sys.exit(main())
