#!/usr/bin/env python3
"""Interposed in front of Kani's bundled `cbmc` (through a KANI_HOME overlay built by runner.py).

Kani hands CBMC the linked + instrumented goto binary of one harness. Before the real CBMC runs, this wrapper
applies the cuts configured in $VERIF_WRAP_CFG (JSON) -- every cut is listed in the evidence files:

  remove_body : regexes on pretty function names whose bodies are dropped (calls become no-ops returning a
                nondeterministic value). Used only for drop glue of error values (freeing an error has no
                observable effect; their mutually recursive drop glue through Box<dyn Error> is what makes
                symbolic execution explode).
  unwindset   : [regex on the pretty name of the function containing the loop, bound] -> per-loop unwinding
                bounds for the few fixed-size byte loops (32-byte XOR, memcmp), so that the global unwinding
                bound of a harness can stay small. Unwinding assertions stay on.
"""
import json
import os
import re
import subprocess
import sys

REAL_BIN = os.environ.get("VERIF_REAL_KANI_BIN", "/root/.kani/kani-0.68.0/bin")
REAL = os.path.join(REAL_BIN, "cbmc")
GI = os.path.join(REAL_BIN, "goto-instrument")


def main():
    args = sys.argv[1:]
    cfgp = os.environ.get("VERIF_WRAP_CFG")
    gb = [a for a in args if a.endswith(".out") and os.path.exists(a)]
    if not cfgp or not gb or not os.path.exists(cfgp):
        os.execv(REAL, [REAL] + args)
    cfg = json.load(open(cfgp))
    src = gb[0]
    cur = src
    notes = []
    rm = cfg.get("remove_body", [])
    if rm:
        out = subprocess.run([GI, "--list-goto-functions", cur], stdout=subprocess.PIPE, stderr=subprocess.DEVNULL,
                             text=True).stdout
        ids = []
        for line in out.splitlines():
            m = re.match(r"^(.*) /\* (\S+?)(, body not available)? \*/\s*$", line)
            if not m or m.group(3):
                continue
            pretty, mangled = m.group(1), m.group(2)
            if any(re.search(r, pretty) for r in rm):
                ids.append(mangled)
                notes.append("remove_body " + pretty)
        if ids:
            dst = src[:-4] + ".cut.out"
            cmd = [GI]
            for i in ids:
                cmd += ["--remove-function-body", i]
            cmd += [cur, dst]
            r = subprocess.run(cmd, stdout=subprocess.PIPE, stderr=subprocess.STDOUT, text=True)
            if r.returncode == 0 and os.path.exists(dst):
                # give the emptied functions an explicit empty body (a missing body makes CBMC emit a
                # `no-body` property whose id Kani's output parser rejects)
                dst2 = src[:-4] + ".cut2.out"
                rx = "^(" + "|".join(re.escape(i) for i in ids) + ")$"
                r2 = subprocess.run([GI, "--generate-function-body", rx, "--generate-function-body-options",
                                     "nondet-return", dst, dst2], stdout=subprocess.PIPE, stderr=subprocess.STDOUT, text=True)
                if r2.returncode == 0 and os.path.exists(dst2):
                    cur = dst2
                    os.remove(dst)
                else:
                    cur = dst
                    notes.append("generate-function-body failed: " + r2.stdout[-300:])
            else:
                notes.append("goto-instrument failed: " + r.stdout[-500:])
    uw = list(cfg.get("unwindset", []))
    base = os.path.basename(src)
    for hname, hcfg in cfg.get("per_harness", {}).items():
        # goto file names end with <len><harness name>.out (v0 mangling)
        if re.search(r"\d%s\.out$" % re.escape(hname), base):
            uw = list(hcfg.get("unwindset", [])) + uw
    extra = []
    if uw:
        out = subprocess.run([GI, "--show-loops", cur], stdout=subprocess.PIPE, stderr=subprocess.DEVNULL,
                             text=True).stdout
        # format: "Loop <id>:\n  file ... function <pretty>\n"
        loops = re.findall(r"Loop (\S+):\n\s+(.*)", out)
        for lid, where in loops:
            m = re.search(r"function (.*)$", where)
            fn = m.group(1) if m else where
            for rx, n in uw:
                if re.search(rx, fn) or re.search(rx, lid):
                    extra.append("%s:%d" % (lid, n))
                    notes.append("unwindset %s (%s) = %d" % (lid[:60], fn[:80], n))
                    break
    new = []
    i = 0
    merged = list(extra)
    while i < len(args):
        a = args[i]
        if a == "--unwindset" and i + 1 < len(args):
            merged += args[i + 1].split(",")
            i += 2
            continue
        if a == src:
            new.append(cur)
        else:
            new.append(a)
        i += 1
    if merged:
        # first entry for a loop wins (per-harness bounds come first, then the global ones)
        seen, uniq = set(), []
        for e in merged:
            lid = e.rsplit(":", 1)[0]
            if lid not in seen:
                seen.add(lid)
                uniq.append(e)
        new += ["--unwindset", ",".join(uniq)]
    logp = os.environ.get("VERIF_WRAP_LOG")
    if logp:
        with open(logp, "a") as f:
            f.write(json.dumps(dict(goto=os.path.basename(src), notes=notes)) + "\n")
    os.execv(REAL, [REAL] + new)


if __name__ == "__main__":
    main()
