// ---- shared harness helpers (textually prepended to harness modules that ask for it) ----
#[allow(unused_imports)]
use cosmian_crypto_core::reexport::rand_core::{CryptoRng, RngCore};

/// RNG whose every draw is a fresh solver variable.
#[allow(dead_code)]
pub(crate) struct SymRng;

impl RngCore for SymRng {
    fn next_u32(&mut self) -> u32 {
        kani::any()
    }
    fn next_u64(&mut self) -> u64 {
        kani::any()
    }
    fn fill_bytes(&mut self, dest: &mut [u8]) {
        let a: [u8; 64] = kani::any();
        let n = dest.len();
        assert!(n <= 64);
        dest.copy_from_slice(&a[..n]);
    }
    fn try_fill_bytes(
        &mut self,
        dest: &mut [u8],
    ) -> Result<(), cosmian_crypto_core::reexport::rand_core::Error> {
        self.fill_bytes(dest);
        Ok(())
    }
}
impl CryptoRng for SymRng {}

/// RNG with fixed draws (used where the harness does not quantify over randomness).
#[allow(dead_code)]
pub(crate) struct ZeroRng;
impl RngCore for ZeroRng {
    fn next_u32(&mut self) -> u32 {
        0
    }
    fn next_u64(&mut self) -> u64 {
        0
    }
    fn fill_bytes(&mut self, dest: &mut [u8]) {
        dest.fill(0);
    }
    fn try_fill_bytes(
        &mut self,
        dest: &mut [u8],
    ) -> Result<(), cosmian_crypto_core::reexport::rand_core::Error> {
        dest.fill(0);
        Ok(())
    }
}
impl CryptoRng for ZeroRng {}

/// Stub for `zeroize::optimization_barrier` (inline asm, unsupported by Kani; semantically a no-op).
#[allow(dead_code)]
pub(crate) fn nop_barrier<T: ?Sized>(_val: &T) {}

/// Stub for `alloc::fmt::format`: error *messages* are not the subject of any property.
#[allow(dead_code)]
pub(crate) fn no_format(_args: std::fmt::Arguments<'_>) -> String {
    String::new()
}
// ---- end of shared helpers ----

// ---- loop-free twins of the two 32-iteration XOR loops of primitives.rs ----
// (`xor_equiv_*` harnesses in primitives_model.rs prove them equal to the originals for every input,
// so stubbing them in the other harnesses does not change the semantics that is checked)
#[allow(dead_code)]
fn w128(b: &[u8], i: usize) -> u128 {
    let mut w = [0u8; 16];
    w.copy_from_slice(&b[16 * i..16 * i + 16]);
    u128::from_le_bytes(w)
}

#[allow(dead_code)]
pub(crate) fn xor_2_model<const LENGTH: usize>(lhs: &[u8; LENGTH], rhs: &[u8; LENGTH]) -> [u8; LENGTH] {
    assert!(LENGTH == 32);
    let mut out = [0; LENGTH];
    out[..16].copy_from_slice(&(w128(lhs, 0) ^ w128(rhs, 0)).to_le_bytes());
    out[16..].copy_from_slice(&(w128(lhs, 1) ^ w128(rhs, 1)).to_le_bytes());
    out
}

#[allow(dead_code)]
pub(crate) fn xor_in_place_model<const LENGTH: usize>(
    mut lhs: cosmian_crypto_core::Secret<LENGTH>,
    rhs: &[u8; LENGTH],
) -> cosmian_crypto_core::Secret<LENGTH> {
    assert!(LENGTH == 32);
    let a = (w128(&*lhs, 0) ^ w128(rhs, 0)).to_le_bytes();
    let b = (w128(&*lhs, 1) ^ w128(rhs, 1)).to_le_bytes();
    lhs[..16].copy_from_slice(&a);
    lhs[16..].copy_from_slice(&b);
    lhs
}

/// Loop-free equality of two 32-byte values (slice `==` is a memcmp loop).
#[allow(dead_code)]
pub(crate) fn eq32(a: &[u8; 32], b: &[u8; 32]) -> bool {
    w128(a, 0) == w128(b, 0) && w128(a, 1) == w128(b, 1)
}

// ---- Display stubs: error *messages* are built with `e.to_string()` in the dependency's readers
// (`Deserializer::read_array`), which drags the whole formatting machinery (padding, char search) into every read.
#[allow(dead_code)]
pub(crate) fn io_error_display_nop(_e: &std::io::Error, _f: &mut std::fmt::Formatter<'_>) -> std::fmt::Result {
    Ok(())
}
#[allow(dead_code)]
pub(crate) fn try_from_int_display_nop(_e: &std::num::TryFromIntError, _f: &mut std::fmt::Formatter<'_>) -> std::fmt::Result {
    Ok(())
}
#[allow(dead_code)]
pub(crate) fn from_utf8_display_nop(_e: &std::string::FromUtf8Error, _f: &mut std::fmt::Formatter<'_>) -> std::fmt::Result {
    Ok(())
}
