//! Second file of key-layer harnesses (injected as `src/core/primitives/verif_k6.rs`, model build); kept apart from
//! keys_model.rs so that adding a harness does not invalidate the cached results of the others. Same style: master key
//! by struct literal (an arbitrary valid state of the stated shape), ONE operation, post-state asserted.
use super::*;
use crate::core::TracingSecretKey;
use crate::verif_model::toy_group::{ToyPoint, ToyScalar, P};
use crate::verif_model::toy_kem::ToyDk;

macro_rules! ll {
    ($($e:expr),*) => {{
        #[allow(unused_mut)]
        let mut l = LinkedList::new();
        $( l.push_back($e); )*
        l
    }};
}
fn secret(v: u8, hybrid: bool) -> RightSecretKey {
    if hybrid {
        RightSecretKey::Hybridized { sk: ToyScalar::new(v), dk: ToyDk([v, 0]) }
    } else {
        RightSecretKey::Classic { sk: ToyScalar::new(v) }
    }
}
fn elt() -> u8 {
    let v: u8 = kani::any();
    kani::assume(v >= 1 && (v as u16) < P);
    v
}
fn distinct4() -> [u8; 4] {
    let v = [elt(), elt(), elt(), elt()];
    kani::assume(v[0] != v[1] && v[0] != v[2] && v[0] != v[3]);
    kani::assume(v[1] != v[2] && v[1] != v[3] && v[2] != v[3]);
    v
}
fn mk_msk(s: u8) -> MasterSecretKey {
    MasterSecretKey {
        tsk: TracingSecretKey {
            s: ToyScalar::new(s),
            tracers: ll![
                (ToyScalar::new(1), ToyPoint::from(&ToyScalar::new(1))),
                (ToyScalar::new(2), ToyPoint::from(&ToyScalar::new(2)))
            ],
            users: HashSet::new(),
        },
        secrets: RevisionMap::new(),
        signing_key: None,
        access_structure: AccessStructure::default(),
    }
}
fn sk_of(k: &RightSecretKey) -> u8 {
    match k {
        RightSecretKey::Hybridized { sk, .. } => sk.0[0],
        RightSecretKey::Classic { sk } => sk.0[0],
    }
}

/// rekey from an ARBITRARY state of a 2-secret chain: both activation flags and both flavours are solver variables
/// (after disable / re-enable / hybridization changes the older secret can carry any combination). The new front
/// inherits flag and flavour of the old FRONT -- not of any older secret -- and the older secrets are untouched.
#[kani::proof]
#[kani::unwind(4)]
#[kani::stub(zeroize::optimization_barrier, nop_barrier)]
#[kani::stub(alloc::fmt::format, no_format)]
fn k_rekey_chain2_mixed() {
    let h = distinct4();
    let (act0, act1, hyb0, hyb1): (bool, bool, bool, bool) = (kani::any(), kani::any(), kani::any(), kani::any());
    let mut msk = mk_msk(elt());
    msk.secrets.map.insert(Right(vec![]), ll![(act0, secret(h[0], hyb0)), (act1, secret(h[1], hyb1))]);
    let mut rng = SymRng;
    let mut set = HashSet::new();
    set.insert(Right(vec![]));
    let res = rekey(&mut rng, &mut msk, set);
    assert!(res.is_ok(), "rekey of a right the master key holds must succeed");
    let c = msk.secrets.get(&Right(vec![])).unwrap();
    kani::cover!(!act0 && act1, "front disabled, older secret still flagged activated");
    kani::cover!(!hyb0 && hyb1, "front classic, older secret hybridized");
    assert!(c.len() == 3, "rekey must prepend exactly one secret");
    let mut it = c.iter();
    let front = it.next().unwrap();
    assert!(front.0 == act0, "rekey: activation flag of the new secret differs from the current (front) one");
    assert!(front.1.is_hybridized() == hyb0, "rekey: flavour of the new secret differs from the current (front) one");
    let e0 = it.next().unwrap();
    assert!(e0.0 == act0 && sk_of(&e0.1) == h[0] && e0.1.is_hybridized() == hyb0, "rekey altered the previous front");
    let e1 = it.next().unwrap();
    assert!(e1.0 == act1 && sk_of(&e1.1) == h[1] && e1.1.is_hybridized() == hyb1, "rekey altered an older secret");
    std::mem::forget(res);
    std::mem::forget(msk);
}

/// rekey of ONE of two rights: the other right's chain is untouched and does not leak its flag / flavour into the new
/// secret (both rights' flags and flavours symbolic; one harness per re-keyed right: a symbolic choice of the right makes
/// the request set's shape symbolic, which took > 20 GB).
macro_rules! rekey_one_of_two {
    ($name:ident, $first:expr) => {
        #[kani::proof]
        #[kani::unwind(4)]
        #[kani::stub(zeroize::optimization_barrier, nop_barrier)]
        #[kani::stub(alloc::fmt::format, no_format)]
        fn $name() {
            let h = distinct4();
            let (act0, act1, hyb0, hyb1): (bool, bool, bool, bool) = (kani::any(), kani::any(), kani::any(), kani::any());
            let mut msk = mk_msk(elt());
            msk.secrets.map.insert(Right(vec![]), ll![(act0, secret(h[0], hyb0))]);
            msk.secrets.map.insert(Right(vec![1]), ll![(act1, secret(h[1], hyb1))]);
            let mut rng = SymRng;
            let mut set = HashSet::new();
            set.insert(if $first { Right(vec![]) } else { Right(vec![1]) });
            let res = rekey(&mut rng, &mut msk, set);
            assert!(res.is_ok(), "rekey of a right the master key holds must succeed");
            kani::cover!(act0 != act1, "one right disabled, the other activated");
            kani::cover!(hyb0 != hyb1, "one right hybridized, the other classic");
            let c0 = msk.secrets.get(&Right(vec![])).unwrap();
            let c1 = msk.secrets.get(&Right(vec![1])).unwrap();
            assert!(c0.len() == if $first { 2 } else { 1 }, "wrong right re-keyed");
            assert!(c1.len() == if $first { 1 } else { 2 }, "wrong right re-keyed");
            assert!(c0.front().unwrap().0 == act0 && c0.front().unwrap().1.is_hybridized() == hyb0, "flag / flavour of right [] changed");
            assert!(c1.front().unwrap().0 == act1 && c1.front().unwrap().1.is_hybridized() == hyb1, "flag / flavour of right [1] changed");
            assert!(sk_of(&c0.back().unwrap().1) == h[0] && c0.back().unwrap().0 == act0, "older secret of right [] altered");
            assert!(sk_of(&c1.back().unwrap().1) == h[1] && c1.back().unwrap().0 == act1, "older secret of right [1] altered");
            std::mem::forget(res);
            std::mem::forget(msk);
        }
    };
}
rekey_one_of_two!(k_rekey_first_of_two_rights, true);
rekey_one_of_two!(k_rekey_second_of_two_rights, false);

/// prune from an ARBITRARY state: pruned right with a 2-secret chain, another right with a 2-secret chain, all eight
/// flags / flavours symbolic. Exactly the front of the pruned chain stays -- with ITS flag and flavour (C06: pruning never
/// re-enables a right; C05: the older secret is gone) -- and the other right is untouched, flags included.
#[kani::proof]
#[kani::unwind(5)]
#[kani::stub(zeroize::optimization_barrier, nop_barrier)]
#[kani::stub(alloc::fmt::format, no_format)]
fn k_prune_chain2_mixed() {
    let h = distinct4();
    let a: [bool; 4] = kani::any();
    let y: [bool; 4] = kani::any();
    let mut msk = mk_msk(elt());
    msk.secrets.map.insert(Right(vec![]), ll![(a[0], secret(h[0], y[0])), (a[1], secret(h[1], y[1]))]);
    msk.secrets.map.insert(Right(vec![1]), ll![(a[2], secret(h[2], y[2])), (a[3], secret(h[3], y[3]))]);
    let mut set = HashSet::new();
    set.insert(Right(vec![]));
    prune(&mut msk, &set);
    kani::cover!(!a[0] && a[1], "front disabled, pruned secret was flagged activated");
    kani::cover!(!y[0] && y[1], "front classic, pruned secret was hybridized");
    let c = msk.secrets.get(&Right(vec![])).unwrap();
    assert!(c.len() == 1, "prune must leave exactly the newest secret");
    let f = c.front().unwrap();
    assert!(sk_of(&f.1) == h[0] && f.0 == a[0] && f.1.is_hybridized() == y[0], "prune changed the secret / flag / flavour of the front");
    let o = msk.secrets.get(&Right(vec![1])).unwrap();
    assert!(o.len() == 2, "prune touched another right");
    let (o0, o1) = (o.front().unwrap(), o.back().unwrap());
    assert!(sk_of(&o0.1) == h[2] && o0.0 == a[2] && o0.1.is_hybridized() == y[2], "prune touched another right");
    assert!(sk_of(&o1.1) == h[3] && o1.0 == a[3] && o1.1.is_hybridized() == y[3], "prune touched another right");
    std::mem::forget(msk);
}

fn hint(h: bool) -> EncryptionHint {
    if h { EncryptionHint::Hybridized } else { EncryptionHint::Classic }
}

/// update_msk where one right leaves the universe while ANOTHER enters it in the same update (as many rights after as
/// before): the right outside the structure is dropped (C05 / C03), the kept right keeps its chain, the new right is
/// created activated with the flavour of its hint.
#[kani::proof]
#[kani::unwind(4)]
#[kani::stub(zeroize::optimization_barrier, nop_barrier)]
#[kani::stub(alloc::fmt::format, no_format)]
fn k_update_swaps_a_right() {
    let h = distinct4();
    let (hyb0, hyb9, new_hint): (bool, bool, bool) = (kani::any(), kani::any(), kani::any());
    let mut msk = mk_msk(elt());
    msk.secrets.map.insert(Right(vec![]), ll![(true, secret(h[0], hyb0)), (true, secret(h[1], hyb0))]);
    msk.secrets.map.insert(Right(vec![9]), ll![(true, secret(h[2], hyb9))]);
    let mut rng = SymRng;
    let mut rights = HashMap::new();
    rights.insert(Right(vec![]), (hint(hyb0), AttributeStatus::EncryptDecrypt));
    rights.insert(Right(vec![1]), (hint(new_hint), AttributeStatus::EncryptDecrypt));
    let res = update_msk(&mut rng, &mut msk, rights);
    assert!(res.is_ok());
    kani::cover!(new_hint && !hyb9, "hybridized right added while a classic one is removed");
    assert!(!msk.secrets.contains_key(&Right(vec![9])), "update kept a right outside the structure (one removed while one added)");
    assert!(msk.secrets.len() == 2, "update must leave exactly the rights of the structure");
    let c = msk.secrets.get(&Right(vec![])).unwrap();
    assert!(c.len() == 2 && sk_of(&c.front().unwrap().1) == h[0] && sk_of(&c.back().unwrap().1) == h[1], "kept right lost / changed secrets");
    let n = msk.secrets.get(&Right(vec![1])).unwrap();
    assert!(n.len() == 1 && n.front().unwrap().0 && n.front().unwrap().1.is_hybridized() == new_hint, "new right: one activated secret of the hinted flavour");
    std::mem::forget(res);
    std::mem::forget(msk);
}
