//! C13 by halves on MINIMAL shapes against an explicit wire layout (injected as `src/core/serialization/verif_k7.rs`,
//! model build). Same idea as serialization_layout.rs (write half: write(v) == W(v) and length() == |W(v)|; read half:
//! read(W(v)) == v with nothing left over), but the shapes are cut down to what the revision-chain part of the wire
//! format needs -- no id marker, no tracing point, no tracer, no user, empty right name, NO trailing signature / signing
//! key -- so that the queries finish: one right with a chain of TWO revisions of different flavours, every secret value
//! and (master key) both activation flags solver variables.
use super::*;
use crate::verif_model::toy_group::{ToyScalar, P};
use crate::verif_model::toy_kem::ToyDk;
use cosmian_crypto_core::bytes_ser_de::{Deserializer, Serializable, Serializer};

fn elt() -> u8 {
    let v: u8 = kani::any();
    kani::assume((v as u16) < P);
    v
}
fn ser<T: Serializable>(t: &T) -> Vec<u8> {
    let mut s = Serializer::with_capacity(64);
    let r = s.write(t);
    assert!(r.is_ok());
    std::mem::forget(r);
    let z = s.finalize();
    let v = z.to_vec();
    std::mem::forget(z);
    v
}

macro_rules! stubs {
    (fn $name:ident() $body:block) => {
        #[kani::proof]
        #[kani::unwind(4)]
        #[kani::stub(zeroize::optimization_barrier, nop_barrier)]
        #[kani::stub(alloc::fmt::format, no_format)]
        #[kani::stub(<std::io::Error as std::fmt::Display>::fmt, io_error_display_nop)]
        #[kani::stub(<std::num::TryFromIntError as std::fmt::Display>::fmt, try_from_int_display_nop)]
        fn $name() $body
    };
}

// user key {"" : [Classic k1, Hybridized (k2, d)]}:  W = 0 | 0 | 1 | 0 | 2 | 0 k1 | 1 k2 d0 d1
stubs! {
fn zr_usk_min_read() {
    let (k1, k2) = (elt(), elt());
    let d: [u8; 2] = kani::any();
    let w = [0u8, 0, 1, 0, 2, 0, k1, 1, k2, d[0], d[1]];
    let mut de = Deserializer::new(&w);
    let back = UserSecretKey::read(&mut de).unwrap();
    kani::cover!(k1 != k2, "two different revisions");
    assert!(de.value().is_empty(), "bytes left over after reading the key");
    assert!(back.signature.is_none() && back.id.0.is_empty() && back.ps.is_empty());
    assert!(back.secrets.len() == 1);
    let (r, c) = back.secrets.iter().next().unwrap();
    assert!(r.0.is_empty() && c.len() == 2, "right name / chain length changed");
    match c.front().unwrap() {
        RightSecretKey::Classic { sk } => assert!(*sk == ToyScalar::new(k1), "newest revision changed (chain reversed?)"),
        _ => assert!(false, "flavour of the newest revision changed (chain reversed?)"),
    }
    match c.back().unwrap() {
        RightSecretKey::Hybridized { sk, dk } => assert!(*sk == ToyScalar::new(k2) && dk.0[0] == d[0] && dk.0[1] == d[1], "oldest revision changed (chain reversed?)"),
        _ => assert!(false, "flavour of the oldest revision changed (chain reversed?)"),
    }
    std::mem::forget(back);
}
}

stubs! {
fn zw_usk_min_write() {
    let (k1, k2) = (elt(), elt());
    let d: [u8; 2] = kani::any();
    let w = [0u8, 0, 1, 0, 2, 0, k1, 1, k2, d[0], d[1]];
    let mut chain = LinkedList::new();
    chain.push_back(RightSecretKey::Classic { sk: ToyScalar::new(k1) });
    chain.push_back(RightSecretKey::Hybridized { sk: ToyScalar::new(k2), dk: ToyDk(d) });
    let mut secrets = RevisionVec::new();
    secrets.insert_new_chain(Right(vec![]), chain);
    let usk = UserSecretKey { id: UserId(LinkedList::new()), ps: vec![], secrets, signature: None };
    let bytes = ser(&usk);
    kani::cover!(k1 != k2, "two different revisions");
    assert!(usk.length() == 11, "length() does not announce the serialized length");
    assert!(bytes.len() == 11, "serialized length changed");
    let b: [u8; 11] = bytes[..].try_into().unwrap();
    assert!(b == w, "wire image of the user key changed");
    std::mem::forget(usk);
    std::mem::forget(bytes);
}
}

// master key: s | 0 tracers | 0 users | 1 right "" : [(f0, Classic k1), (f1, Hybridized (k2, d))] | no signing key | empty structure
//   W = s | 0 | 0 | 1 | 0 | 2 | f0 0 k1 | f1 1 k2 d0 d1 | 0 0
stubs! {
fn zr_msk_min_read() {
    let (s, k1, k2) = (elt(), elt(), elt());
    let d: [u8; 2] = kani::any();
    let f0: bool = kani::any();
    let f1: bool = kani::any();
    let w = [s, 0, 0, 1, 0, 2, f0 as u8, 0, k1, f1 as u8, 1, k2, d[0], d[1], 0, 0];
    let mut de = Deserializer::new(&w);
    let back = MasterSecretKey::read(&mut de).unwrap();
    kani::cover!(!f0 && f1, "front disabled, older activated");
    kani::cover!(f0 && !f1, "front activated, older disabled");
    assert!(de.value().is_empty(), "bytes left over after reading the key");
    assert!(back.tsk.s == ToyScalar::new(s) && back.tsk.tracers.is_empty() && back.tsk.users.len() == 0, "tracing key changed");
    assert!(back.signing_key.is_none(), "a signing key appeared");
    assert!(back.secrets.len() == 1);
    let c = back.secrets.get(&Right(vec![])).unwrap();
    assert!(c.len() == 2, "chain length changed");
    assert!(c.front().unwrap().0 == f0, "activation flag of the newest secret changed in deserialization");
    assert!(c.back().unwrap().0 == f1, "activation flag of the oldest secret changed in deserialization");
    match &c.front().unwrap().1 {
        RightSecretKey::Classic { sk } => assert!(*sk == ToyScalar::new(k1), "newest secret changed (chain reversed?)"),
        _ => assert!(false, "flavour of the newest secret changed"),
    }
    match &c.back().unwrap().1 {
        RightSecretKey::Hybridized { sk, dk } => assert!(*sk == ToyScalar::new(k2) && dk.0[0] == d[0] && dk.0[1] == d[1], "oldest secret changed (chain reversed?)"),
        _ => assert!(false, "flavour of the oldest secret changed"),
    }
    std::mem::forget(back);
}
}

stubs! {
fn zw_msk_min_write() {
    let (s, k1, k2) = (elt(), elt(), elt());
    let d: [u8; 2] = kani::any();
    let f0: bool = kani::any();
    let f1: bool = kani::any();
    let w = [s, 0, 0, 1, 0, 2, f0 as u8, 0, k1, f1 as u8, 1, k2, d[0], d[1], 0, 0];
    let mut chain = LinkedList::new();
    chain.push_back((f0, RightSecretKey::Classic { sk: ToyScalar::new(k1) }));
    chain.push_back((f1, RightSecretKey::Hybridized { sk: ToyScalar::new(k2), dk: ToyDk(d) }));
    let mut secrets = RevisionMap::new();
    secrets.map.insert(Right(vec![]), chain);
    let msk = MasterSecretKey {
        tsk: TracingSecretKey { s: ToyScalar::new(s), tracers: LinkedList::new(), users: HashSet::new() },
        secrets,
        signing_key: None,
        access_structure: AccessStructure::default(),
    };
    let bytes = ser(&msk);
    kani::cover!(!f0 && f1, "front disabled, older activated");
    assert!(msk.length() == 16, "length() does not announce the serialized length");
    assert!(bytes.len() == 16, "serialized length changed");
    let b: [u8; 16] = bytes[..].try_into().unwrap();
    assert!(b == w, "wire image of the master key changed");
    std::mem::forget(msk);
    std::mem::forget(bytes);
}
}
