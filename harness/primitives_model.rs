//! Model-tier harnesses for `core::primitives` (injected as `src/core/primitives/verif_k.rs`,
//! built with `--no-default-features --features cosmian_cover_crypt_verif`).
use super::*;
use crate::core::TracingPublicKey;
use cosmian_crypto_core::FixedSizeCBytes;
use crate::verif_model::toy_group::{ToyPoint, ToyScalar};

fn scalar_nz() -> ToyScalar {
    let v: u8 = kani::any();
    kani::assume(v >= 1 && (v as u16) < crate::verif_model::toy_group::P);
    ToyScalar::new(v)
}
fn scalar() -> ToyScalar {
    let v: u8 = kani::any();
    kani::assume((v as u16) < crate::verif_model::toy_group::P);
    ToyScalar::new(v)
}

/// G1 probe: classic, tracing level 1, one target, user holds the matching secret.
#[kani::proof]
#[kani::unwind(2)]
#[kani::stub(zeroize::optimization_barrier, nop_barrier)]
#[kani::stub(alloc::fmt::format, no_format)]
fn g1_kem_classic_1x1() {
    let mut rng = SymRng;
    let s = scalar_nz();
    let t0 = scalar_nz();
    let t1 = scalar_nz();
    let a0 = scalar();
    // a1 solves a0*t0 + a1*t1 = s
    let a1 = ((&s - &(&a0 * &t0)) / &t1).unwrap();
    let h = ToyPoint::from(&s);
    let p0 = ToyPoint::from(&t0);
    let p1 = ToyPoint::from(&t1);
    let x = scalar_nz();
    let pk = RightPublicKey::Classic { H: &h * &x };

    let S = Secret::random(&mut rng);
    let r = G_hash(&S).unwrap();
    let c = vec![&p0 * &r, &p1 * &r];
    let (ss, enc) = c_encaps(S, c, r, vec![&pk]).unwrap();

    let right = Right(vec![]);
    let mut id = LinkedList::new();
    id.push_back(a0);
    id.push_back(a1);
    let mut secrets = RevisionVec::new();
    secrets.create_chain_with_single_value(right, RightSecretKey::Classic { sk: x });
    let usk = UserSecretKey {
        id: UserId(id),
        ps: vec![p0, p1],
        secrets,
        signature: None,
    };
    let res = decaps(&mut rng, &usk, &enc).unwrap();
    kani::cover!(res.is_some(), "decaps returned Some");
    assert!(res.is_some());
    assert!(eq32(&**res.as_ref().unwrap(), &*ss));
    std::mem::forget(res);
    std::mem::forget(ss);
    std::mem::forget(usk);
    std::mem::forget(enc);
    std::mem::forget(pk);
}

// ------------------------------------------------------------------------------------------------
// shared construction for the KEM harnesses (tracing level 1, one right, classic)
// ------------------------------------------------------------------------------------------------
struct Kem1 {
    p0: ToyPoint,
    p1: ToyPoint,
    a0: ToyScalar,
    a1: ToyScalar,
    h: ToyPoint,
}
fn kem1() -> Kem1 {
    let s = scalar_nz();
    let t0 = scalar_nz();
    let t1 = scalar_nz();
    let a0 = scalar();
    let a1 = ((&s - &(&a0 * &t0)) / &t1).unwrap();
    Kem1 {
        p0: ToyPoint::from(&t0),
        p1: ToyPoint::from(&t1),
        a0,
        a1,
        h: ToyPoint::from(&s),
    }
}
macro_rules! usk1 {
    ($k:expr, $sk:expr) => {{
        let mut id = LinkedList::new();
        id.push_back($k.a0.clone());
        id.push_back($k.a1.clone());
        let mut secrets = RevisionVec::new();
        secrets.create_chain_with_single_value(Right(vec![]), $sk);
        UserSecretKey {
            id: UserId(id),
            ps: vec![$k.p0.clone(), $k.p1.clone()],
            secrets,
            signature: None,
        }
    }};
}

/// C02 S-kem: a key whose only secret differs from the targeted right's secret gets `None` -- never a secret.
#[kani::proof]
#[kani::unwind(2)]
#[kani::stub(zeroize::optimization_barrier, nop_barrier)]
#[kani::stub(alloc::fmt::format, no_format)]
fn s_kem_classic_unauthorized() {
    let mut rng = SymRng;
    let k = kem1();
    let x = scalar_nz();
    let y = scalar_nz();
    kani::assume(x != y);
    let pk = RightPublicKey::Classic { H: &k.h * &x };
    let S = Secret::random(&mut rng);
    let r = G_hash(&S).unwrap();
    let c = vec![&k.p0 * &r, &k.p1 * &r];
    let (ss, enc) = c_encaps(S, c, r, vec![&pk]).unwrap();
    let usk = usk1!(k, RightSecretKey::Classic { sk: y });
    let res = decaps(&mut rng, &usk, &enc).unwrap();
    kani::cover!(res.is_none(), "decaps returned None");
    assert!(res.is_none(), "a key without the targeted secret recovered a secret");
    std::mem::forget(res);
    std::mem::forget(ss);
    std::mem::forget(usk);
    std::mem::forget(enc);
    std::mem::forget(pk);
}

/// C07 N-struct: an honest classic encapsulation with ONE component altered never opens for the authorized key:
/// `None`, never a secret. One harness per kind of alteration (a single harness with a symbolic kind is three
/// times larger, and a failing one then exhausts the memory before CBMC can report the counterexample).
macro_rules! tamper_harness {
    ($name:ident, $cover:expr, |$enc:ident, $k:ident| $tamper:block) => {
        #[kani::proof]
        #[kani::unwind(2)]
        #[kani::stub(zeroize::optimization_barrier, nop_barrier)]
        #[kani::stub(alloc::fmt::format, no_format)]
        fn $name() {
            let mut rng = SymRng;
            let $k = kem1();
            let x = scalar_nz();
            let pk = RightPublicKey::Classic { H: &$k.h * &x };
            let S = Secret::random(&mut rng);
            let r = G_hash(&S).unwrap();
            let c = vec![&$k.p0 * &r, &$k.p1 * &r];
            let (ss, mut $enc) = c_encaps(S, c, r, vec![&pk]).unwrap();
            $tamper;
            let usk = usk1!($k, RightSecretKey::Classic { sk: x });
            let res = decaps(&mut rng, &usk, &$enc).unwrap();
            kani::cover!(true, $cover);
            assert!(res.is_none(), "a tampered encapsulation was opened");
            std::mem::forget(res);
            std::mem::forget(ss);
            std::mem::forget(usk);
            std::mem::forget($enc);
            std::mem::forget(pk);
        }
    };
}
tamper_harness!(n_tamper_tag_byte, "tag altered", |enc, k| {
    let pos: usize = kani::any();
    let delta: u8 = kani::any();
    kani::assume(delta != 0 && pos < TAG_LENGTH);
    enc.tag[pos] ^= delta;
});
tamper_harness!(n_tamper_masked_seed_byte, "masked seed altered", |enc, k| {
    let pos: usize = kani::any();
    let delta: u8 = kani::any();
    kani::assume(delta != 0 && pos < SHARED_SECRET_LENGTH);
    if let Encapsulations::CEncs(v) = &mut enc.encapsulations {
        v[0][pos] ^= delta;
    }
});
tamper_harness!(n_tamper_trap, "trap altered", |enc, k| {
    let pos: usize = kani::any();
    kani::assume(pos < 2);
    let d = scalar_nz();
    enc.c[pos] = &enc.c[pos] + &ToyPoint::from(&d);
});

/// C01/C11 L-kem hybrid: h_encaps then decaps with the matching hybridized secret returns the same secret.
#[kani::proof]
#[kani::unwind(2)]
#[kani::stub(zeroize::optimization_barrier, nop_barrier)]
#[kani::stub(alloc::fmt::format, no_format)]
fn g1_kem_hybrid_1x1() {
    let mut rng = SymRng;
    let k = kem1();
    let x = scalar_nz();
    let dk = crate::verif_model::toy_kem::ToyDk(kani::any());
    let pk = RightPublicKey::Hybridized { H: &k.h * &x, ek: dk.ek() };
    let S = Secret::random(&mut rng);
    let r = G_hash(&S).unwrap();
    let c = vec![&k.p0 * &r, &k.p1 * &r];
    let subkeys = [&pk];
    let (ss, enc) = h_encaps(S, c, r, &subkeys, &mut rng).unwrap();
    kani::cover!(matches!(enc.encapsulations, Encapsulations::HEncs(_)), "hybridized encapsulation");
    assert!(matches!(enc.encapsulations, Encapsulations::HEncs(_)));
    let usk = usk1!(k, RightSecretKey::Hybridized { sk: x, dk });
    let res = decaps(&mut rng, &usk, &enc).unwrap();
    kani::cover!(res.is_some(), "decaps returned Some");
    assert!(res.is_some());
    assert!(eq32(&**res.as_ref().unwrap(), &*ss));
    std::mem::forget(res);
    std::mem::forget(ss);
    std::mem::forget(usk);
    std::mem::forget(enc);
    std::mem::forget(pk);
}

/// C01/C11: a CLASSIC encapsulation (mixed targets) made for a HYBRIDIZED right is opened by the key holding
/// the hybridized secret of that right (classic decapsulation uses the ElGamal part of hybridized secrets).
#[kani::proof]
#[kani::unwind(2)]
#[kani::stub(zeroize::optimization_barrier, nop_barrier)]
#[kani::stub(alloc::fmt::format, no_format)]
fn g1_kem_classic_enc_hybrid_key() {
    let mut rng = SymRng;
    let k = kem1();
    let x = scalar_nz();
    let dk = crate::verif_model::toy_kem::ToyDk(kani::any());
    let pk = RightPublicKey::Hybridized { H: &k.h * &x, ek: dk.ek() };
    let S = Secret::random(&mut rng);
    let r = G_hash(&S).unwrap();
    let c = vec![&k.p0 * &r, &k.p1 * &r];
    let (ss, enc) = c_encaps(S, c, r, vec![&pk]).unwrap();
    let usk = usk1!(k, RightSecretKey::Hybridized { sk: x, dk });
    let res = decaps(&mut rng, &usk, &enc).unwrap();
    kani::cover!(res.is_some(), "decaps returned Some");
    assert!(res.is_some(), "a hybridized secret must open a classic encapsulation made for its right");
    assert!(eq32(&**res.as_ref().unwrap(), &*ss));
    std::mem::forget(res);
    std::mem::forget(ss);
    std::mem::forget(usk);
    std::mem::forget(enc);
    std::mem::forget(pk);
}

/// C02 S-kem (mixed flavours): a CLASSIC encapsulation made for a hybridized right is NOT opened by a key that
/// holds a different hybridized secret (the mask must depend on the right's ElGamal secret in this path too).
#[kani::proof]
#[kani::unwind(2)]
#[kani::stub(zeroize::optimization_barrier, nop_barrier)]
#[kani::stub(alloc::fmt::format, no_format)]
fn s_kem_classic_enc_hybrid_key_unauthorized() {
    let mut rng = SymRng;
    let k = kem1();
    let x = scalar_nz();
    let y = scalar_nz();
    kani::assume(x != y);
    let dkx = crate::verif_model::toy_kem::ToyDk(kani::any());
    let dky = crate::verif_model::toy_kem::ToyDk(kani::any());
    let pk = RightPublicKey::Hybridized { H: &k.h * &x, ek: dkx.ek() };
    let S = Secret::random(&mut rng);
    let r = G_hash(&S).unwrap();
    let c = vec![&k.p0 * &r, &k.p1 * &r];
    let (ss, enc) = c_encaps(S, c, r, vec![&pk]).unwrap();
    let usk = usk1!(k, RightSecretKey::Hybridized { sk: y, dk: dky });
    let res = decaps(&mut rng, &usk, &enc).unwrap();
    kani::cover!(res.is_none(), "decaps returned None");
    assert!(res.is_none(), "a key holding another hybridized secret opened a classic encapsulation");
    std::mem::forget(res);
    std::mem::forget(ss);
    std::mem::forget(usk);
    std::mem::forget(enc);
    std::mem::forget(pk);
}

/// C14 U-use: encapsulations only a parser can build (no right-encapsulation at all, either flavour; no trap)
/// are passed to decapsulation: `None`, never a panic or an endless loop.
#[kani::proof]
#[kani::unwind(3)]
#[kani::stub(zeroize::optimization_barrier, nop_barrier)]
#[kani::stub(alloc::fmt::format, no_format)]
fn u_decaps_degenerate_encapsulations() {
    let mut rng = SymRng;
    let k = kem1();
    let x = scalar_nz();
    let usk = usk1!(k, RightSecretKey::Classic { sk: x });
    let tag: [u8; TAG_LENGTH] = kani::any();
    let hyb: bool = kani::any();
    let no_trap: bool = kani::any();
    let enc = XEnc {
        tag,
        c: if no_trap { Vec::new() } else { vec![k.p0.clone(), k.p1.clone()] },
        encapsulations: if hyb { Encapsulations::HEncs(Vec::new()) } else { Encapsulations::CEncs(Vec::new()) },
    };
    let res = decaps(&mut rng, &usk, &enc);
    kani::cover!(hyb && !no_trap, "hybridized, no right-encapsulation");
    kani::cover!(!hyb && no_trap, "classic, no trap");
    assert!(matches!(res, Ok(None)), "an empty encapsulation must simply not open");
    std::mem::forget(res);
    std::mem::forget(usk);
    std::mem::forget(enc);
}

/// C16 W-encaps: two encapsulations whose seeds differ have different tags and different session secrets
/// (the seed is drawn from the RNG per call: `encaps` = `Secret::random` + this function).
#[kani::proof]
#[kani::unwind(2)]
#[kani::stub(zeroize::optimization_barrier, nop_barrier)]
#[kani::stub(alloc::fmt::format, no_format)]
fn w_encaps_fresh_per_seed() {
    let mut rng = SymRng;
    let k = kem1();
    let x = scalar_nz();
    let pk = RightPublicKey::Classic { H: &k.h * &x };
    let s1 = Secret::<SHARED_SECRET_LENGTH>::random(&mut rng);
    let s2 = Secret::<SHARED_SECRET_LENGTH>::random(&mut rng);
    kani::assume(!eq32(&*s1, &*s2));
    let r1 = G_hash(&s1).unwrap();
    let r2 = G_hash(&s2).unwrap();
    let c1 = vec![&k.p0 * &r1, &k.p1 * &r1];
    let c2 = vec![&k.p0 * &r2, &k.p1 * &r2];
    let (ss1, e1) = c_encaps(s1, c1, r1, vec![&pk]).unwrap();
    let (ss2, e2) = c_encaps(s2, c2, r2, vec![&pk]).unwrap();
    kani::cover!(true, "two encapsulations");
    assert!(!eq32(&*ss1, &*ss2), "two encapsulations share a session secret");
    let t1 = u128::from_le_bytes(e1.tag);
    let t2 = u128::from_le_bytes(e2.tag);
    assert!(t1 != t2, "two encapsulations share a tag");
    std::mem::forget(ss1);
    std::mem::forget(ss2);
    std::mem::forget(e1);
    std::mem::forget(e2);
    std::mem::forget(pk);
}

/// C18 Y-full: the master key opens an honest encapsulation made for the one right it holds (activated) and
/// reports exactly that right; when the right's secret is disabled it fails.
#[kani::proof]
#[kani::unwind(2)]
#[kani::stub(zeroize::optimization_barrier, nop_barrier)]
#[kani::stub(alloc::fmt::format, no_format)]
fn y_full_decaps_1x1() {
    let mut rng = SymRng;
    let s = scalar_nz();
    let t0 = scalar_nz();
    let t1 = scalar_nz();
    let x = scalar_nz();
    let act: bool = kani::any();
    let h = ToyPoint::from(&s);
    let p0 = ToyPoint::from(&t0);
    let p1 = ToyPoint::from(&t1);
    let pk = RightPublicKey::Classic { H: &h * &x };
    let S = Secret::random(&mut rng);
    let r = G_hash(&S).unwrap();
    let c = vec![&p0 * &r, &p1 * &r];
    let (ss, enc) = c_encaps(S, c, r, vec![&pk]).unwrap();
    let mut tracers = LinkedList::new();
    tracers.push_back((t0, p0));
    tracers.push_back((t1, p1));
    let mut secrets = RevisionMap::new();
    let mut chain = LinkedList::new();
    chain.push_back((act, RightSecretKey::Classic { sk: x }));
    secrets.map.insert(Right(vec![]), chain);
    let msk = MasterSecretKey {
        tsk: crate::core::TracingSecretKey { s, tracers, users: HashSet::new() },
        secrets,
        signing_key: None,
        access_structure: AccessStructure::default(),
    };
    let res = full_decaps(&msk, &enc);
    kani::cover!(act, "right activated");
    kani::cover!(!act, "right disabled");
    if act {
        assert!(res.is_ok(), "the master key must open an encapsulation for a right it holds");
        let (got, rights) = res.as_ref().unwrap();
        assert!(eq32(&**got, &*ss), "full_decaps recovered a different secret");
        assert!(rights.len() == 1 && rights.contains(&Right(vec![])), "full_decaps must report exactly the targeted right");
    } else {
        assert!(res.is_err(), "a disabled right must not be re-encapsulated");
    }
    std::mem::forget(res);
    std::mem::forget(ss);
    std::mem::forget(enc);
    std::mem::forget(msk);
    std::mem::forget(pk);
}

// ------------------------------------------------------------------------------------------------
// C11 H-enc: select_subkeys (what decides the encapsulation mode) -- no hashing
// ------------------------------------------------------------------------------------------------
#[kani::proof]
#[kani::unwind(4)]
#[kani::stub(zeroize::optimization_barrier, nop_barrier)]
#[kani::stub(alloc::fmt::format, no_format)]
fn h_select_subkeys_mode() {
    let hyb0: bool = kani::any();
    let hyb1: bool = kani::any();
    let two: bool = kani::any();
    let mk = |hyb: bool, v: u8| {
        if hyb {
            RightPublicKey::Hybridized { H: ToyPoint(v), ek: crate::verif_model::toy_kem::ToyEk([v, 0]) }
        } else {
            RightPublicKey::Classic { H: ToyPoint(v) }
        }
    };
    let mut encryption_keys = HashMap::new();
    encryption_keys.insert(Right(vec![]), mk(hyb0, 1));
    encryption_keys.insert(Right(vec![1]), mk(hyb1, 2));
    let mpk = MasterPublicKey {
        tpk: crate::core::TracingPublicKey(LinkedList::new()),
        encryption_keys,
        access_structure: AccessStructure::default(),
    };
    let mut targets = HashSet::new();
    targets.insert(Right(vec![]));
    if two {
        targets.insert(Right(vec![1]));
    }
    let (is_hyb, keys) = mpk.select_subkeys(&targets).unwrap();
    kani::cover!(two && hyb0 && !hyb1, "mixed flavours");
    kani::cover!(two && hyb0 && hyb1, "all hybridized");
    // an encapsulation is hybridized iff every right it targets is hybridized
    assert!(is_hyb == (hyb0 && (!two || hyb1)), "encapsulation mode is not 'all targets hybridized'");
    assert!(keys.len() == if two { 2 } else { 1 });
    // a right without a published key is an error (C09)
    let mut missing = HashSet::new();
    missing.insert(Right(vec![9]));
    assert!(mpk.select_subkeys(&missing).is_err(), "encryption for a right with no published key must fail");
    std::mem::forget(keys);
    std::mem::forget(mpk);
    std::mem::forget(targets);
    std::mem::forget(missing);
}

// ------------------------------------------------------------------------------------------------
// C17 V-id / C16 W-id: generate_user_id and refresh_id
// ------------------------------------------------------------------------------------------------
#[kani::proof]
#[kani::unwind(4)]
#[kani::stub(zeroize::optimization_barrier, nop_barrier)]
#[kani::stub(alloc::fmt::format, no_format)]
fn v_generate_user_id_relation() {
    let s = scalar_nz();
    let t0 = scalar_nz();
    let t1 = scalar_nz();
    let mut tracers = LinkedList::new();
    tracers.push_back((t0.clone(), ToyPoint::from(&t0)));
    tracers.push_back((t1.clone(), ToyPoint::from(&t1)));
    let mut tsk = crate::core::TracingSecretKey { s: s.clone(), tracers, users: HashSet::new() };
    let mut rng = SymRng;
    let id = tsk.generate_user_id(&mut rng).unwrap();
    kani::cover!(true, "id generated");
    // registered
    assert!(tsk.is_known(&id), "a generated id must be recorded in the master key");
    assert!(tsk.users.len() == 1);
    // tracing relation: sum a_i * t_i = s
    let mut it = id.iter();
    let a0 = it.next().unwrap();
    let a1 = it.next().unwrap();
    assert!(it.next().is_none(), "one marker per tracer");
    assert!(&(a0 * &t0) + &(a1 * &t1) == s, "markers combined with the tracers must give the binding scalar");
    assert!(tsk._validate_user_id(&id));
    // a second id is registered as well; if the RNG draws differ the ids differ (C16)
    let id2 = tsk.generate_user_id(&mut rng).unwrap();
    assert!(tsk.is_known(&id2) && tsk.is_known(&id));
    let b0 = id2.iter().next().unwrap();
    if b0 != a0 {
        assert!(id2 != id && tsk.users.len() == 2);
    }
    // refresh_id: unknown id refused, known id of the right level kept as is
    let mut fake = LinkedList::new();
    fake.push_back(a0 + &ToyScalar::new(1));
    fake.push_back(a1.clone());
    let fake = UserId(fake);
    if !tsk.is_known(&fake) {
        assert!(tsk.refresh_id(&mut rng, fake).is_err(), "unknown id must be refused");
    }
    let same = tsk.refresh_id(&mut rng, id.clone()).unwrap();
    assert!(same == id);
    std::mem::forget(tsk);
}

// ------------------------------------------------------------------------------------------------
// C08: what `sign` feeds to the MAC. `Kmac::update/finalize` are stubbed to record the byte stream (ghost
// state); two keys get the same signature iff they feed the same stream (KMAC being a PRF), so the question
// "which keys are accepted" becomes "which keys produce the same stream" -- no hashing involved.
// ------------------------------------------------------------------------------------------------
static mut GHOST: [u8; 24] = [0; 24];
static mut GHOST_LEN: usize = 0;
#[allow(dead_code)]
fn ghost_update(_k: &mut crate::verif_model::hash::Kmac, input: &[u8]) {
    unsafe {
        let n = input.len();
        assert!(GHOST_LEN + n <= 24);
        let mut i = 0;
        while i < n {
            GHOST[GHOST_LEN + i] = input[i];
            i += 1;
        }
        GHOST_LEN += n;
    }
}
#[allow(dead_code)]
fn ghost_finalize(_k: crate::verif_model::hash::Kmac, _output: &mut [u8]) {}
fn ghost_take() -> ([u8; 24], usize) {
    unsafe {
        let r = (GHOST, GHOST_LEN);
        GHOST = [0; 24];
        GHOST_LEN = 0;
        r
    }
}
fn same_stream(a: &([u8; 24], usize), b: &([u8; 24], usize)) -> bool {
    // unused tail bytes are zero in both, so comparing the fixed arrays is exact
    a.1 == b.1 && u128::from_le_bytes(a.0[..16].try_into().unwrap()) == u128::from_le_bytes(b.0[..16].try_into().unwrap())
        && u64::from_le_bytes(a.0[16..].try_into().unwrap()) == u64::from_le_bytes(b.0[16..].try_into().unwrap())
}
fn signing_msk() -> MasterSecretKey {
    let t = scalar_nz();
    let mut tracers = LinkedList::new();
    tracers.push_back((t.clone(), ToyPoint::from(&t)));
    MasterSecretKey {
        tsk: crate::core::TracingSecretKey { s: scalar_nz(), tracers, users: HashSet::new() },
        secrets: RevisionMap::new(),
        signing_key: Some(SymmetricKey::try_from_bytes([7u8; SIGNING_KEY_LENGTH]).unwrap()),
        access_structure: AccessStructure::default(),
    }
}
fn cl(v: u8) -> RightSecretKey {
    RightSecretKey::Classic { sk: ToyScalar::new(v) }
}
fn el() -> u8 {
    let v: u8 = kani::any();
    kani::assume((v as u16) < crate::verif_model::toy_group::P);
    v
}
fn uid(a0: u8) -> UserId {
    let mut id = LinkedList::new();
    id.push_back(ToyScalar::new(a0));
    UserId(id)
}

/// F-inj (values): same arrangement (1 marker, 1 right with a 1-byte name, chain of 2), different values
/// (marker, name, either secret, or the two secrets swapped) => different MAC input.
#[kani::proof]
#[kani::unwind(4)]
#[kani::stub(zeroize::optimization_barrier, nop_barrier)]
#[kani::stub(alloc::fmt::format, no_format)]
#[kani::stub(<crate::verif_model::hash::Kmac as crate::verif_model::hash::Hasher>::update, ghost_update)]
#[kani::stub(<crate::verif_model::hash::Kmac as crate::verif_model::hash::Hasher>::finalize, ghost_finalize)]
fn f_verify_detects_value_changes() {
    let msk = signing_msk();
    let (a0, k1, k2, n) = (el(), el(), el(), kani::any::<u8>());
    let (b0, l1, l2, m) = (el(), el(), el(), kani::any::<u8>());
    kani::assume(b0 != a0 || l1 != k1 || l2 != k2 || m != n);
    let mk = |k1: u8, k2: u8, n: u8| {
        let mut chain = LinkedList::new();
        chain.push_back(cl(k1));
        chain.push_back(cl(k2));
        let mut secrets = RevisionVec::new();
        secrets.insert_new_chain(Right(vec![n]), chain);
        secrets
    };
    let (ia, sa) = (uid(a0), mk(k1, k2, n));
    let r = sign(&msk, &ia, &sa).unwrap();
    assert!(r.is_some(), "a master key with a signing key signs");
    let stream_a = ghost_take();
    let (ib, sb) = (uid(b0), mk(l1, l2, m));
    let _ = sign(&msk, &ib, &sb).unwrap();
    let stream_b = ghost_take();
    kani::cover!(b0 == a0 && l1 == k1 && l2 == k2, "only the right's name differs");
    kani::cover!(l1 == k2 && l2 == k1 && k1 != k2, "secrets swapped inside the chain");
    assert!(stream_a.1 == 5, "MAC input = marker, name, flavourless secrets");
    assert!(!same_stream(&stream_a, &stream_b), "two keys with different contents feed the same bytes to the MAC");
    std::mem::forget(sa);
    std::mem::forget(sb);
    std::mem::forget(msk);
}

/// F-inj (re-framing): {n:[k1,k2]} and {n:[k1], "":[k2]} are different arrangements and must feed different
/// byte streams to the MAC. (The MAC input has no length framing of names and chains.)
#[kani::proof]
#[kani::unwind(4)]
#[kani::stub(zeroize::optimization_barrier, nop_barrier)]
#[kani::stub(alloc::fmt::format, no_format)]
#[kani::stub(<crate::verif_model::hash::Kmac as crate::verif_model::hash::Hasher>::update, ghost_update)]
#[kani::stub(<crate::verif_model::hash::Kmac as crate::verif_model::hash::Hasher>::finalize, ghost_finalize)]
fn f_sign_reframing_chain_split() {
    let msk = signing_msk();
    let (a0, k1, k2, n) = (el(), el(), el(), kani::any::<u8>());
    let id = uid(a0);
    let mut chain = LinkedList::new();
    chain.push_back(cl(k1));
    chain.push_back(cl(k2));
    let mut a = RevisionVec::new();
    a.insert_new_chain(Right(vec![n]), chain);
    let mut b = RevisionVec::new();
    b.create_chain_with_single_value(Right(vec![n]), cl(k1));
    b.create_chain_with_single_value(Right(vec![]), cl(k2));
    let _ = sign(&msk, &id, &a).unwrap();
    let sa = ghost_take();
    let _ = sign(&msk, &id, &b).unwrap();
    let sb = ghost_take();
    kani::cover!(true, "both signed");
    assert!(!same_stream(&sa, &sb), "two different arrangements of rights and secrets feed the same bytes to the MAC (no length framing)");
    std::mem::forget(a);
    std::mem::forget(b);
    std::mem::forget(msk);
}

/// F-inj (order): reordering the rights of a key changes the MAC input.
#[kani::proof]
#[kani::unwind(4)]
#[kani::stub(zeroize::optimization_barrier, nop_barrier)]
#[kani::stub(alloc::fmt::format, no_format)]
#[kani::stub(<crate::verif_model::hash::Kmac as crate::verif_model::hash::Hasher>::update, ghost_update)]
#[kani::stub(<crate::verif_model::hash::Kmac as crate::verif_model::hash::Hasher>::finalize, ghost_finalize)]
fn f_sign_order_matters() {
    let msk = signing_msk();
    let (a0, k1, k2) = (el(), el(), el());
    let (n, m) = (kani::any::<u8>(), kani::any::<u8>());
    kani::assume(n != m || k1 != k2);
    let id = uid(a0);
    let mut a = RevisionVec::new();
    a.create_chain_with_single_value(Right(vec![n]), cl(k1));
    a.create_chain_with_single_value(Right(vec![m]), cl(k2));
    let mut b = RevisionVec::new();
    b.create_chain_with_single_value(Right(vec![m]), cl(k2));
    b.create_chain_with_single_value(Right(vec![n]), cl(k1));
    let _ = sign(&msk, &id, &a).unwrap();
    let sa = ghost_take();
    let _ = sign(&msk, &id, &b).unwrap();
    let sb = ghost_take();
    kani::cover!(true, "both signed");
    assert!(!same_stream(&sa, &sb), "reordering the rights of a key does not change the MAC input");
    std::mem::forget(a);
    std::mem::forget(b);
    std::mem::forget(msk);
}

/// C08: the MAC input of the key {[n]:[k1]} with marker a0 is exactly a0, n, k1.
#[kani::proof]
#[kani::unwind(4)]
#[kani::stub(zeroize::optimization_barrier, nop_barrier)]
#[kani::stub(alloc::fmt::format, no_format)]
#[kani::stub(<crate::verif_model::hash::Kmac as crate::verif_model::hash::Hasher>::update, ghost_update)]
#[kani::stub(<crate::verif_model::hash::Kmac as crate::verif_model::hash::Hasher>::finalize, ghost_finalize)]
fn f_sign_stream_layout() {
    let msk = signing_msk();
    let (a0, k1, n) = (el(), el(), kani::any::<u8>());
    let id = uid(a0);
    let mut a = RevisionVec::new();
    a.create_chain_with_single_value(Right(vec![n]), cl(k1));
    let r = sign(&msk, &id, &a).unwrap();
    kani::cover!(true, "signed");
    assert!(r.is_some(), "a master key with a signing key signs");
    let s = ghost_take();
    assert!(s.1 == 3 && s.0[0] == a0 && s.0[1] == n && s.0[2] == k1, "MAC input = marker, name, secret");
    std::mem::forget(a);
    std::mem::forget(msk);
}

/// C08 F-inj (re-framing): the key {"":[x, k1]} -- empty right name, chain of two -- is a different arrangement
/// from {[x]:[k1]} (whose MAC input is a0, x, k1 by `f_sign_stream_layout`): their MAC inputs must differ.
#[kani::proof]
#[kani::unwind(4)]
#[kani::stub(zeroize::optimization_barrier, nop_barrier)]
#[kani::stub(alloc::fmt::format, no_format)]
#[kani::stub(<crate::verif_model::hash::Kmac as crate::verif_model::hash::Hasher>::update, ghost_update)]
#[kani::stub(<crate::verif_model::hash::Kmac as crate::verif_model::hash::Hasher>::finalize, ghost_finalize)]
fn f_sign_reframing_name_vs_chain() {
    let msk = signing_msk();
    let (a0, x, k1) = (el(), el(), el());
    let id = uid(a0);
    let mut chain = LinkedList::new();
    chain.push_back(cl(x));
    chain.push_back(cl(k1));
    let mut b = RevisionVec::new();
    b.insert_new_chain(Right(vec![]), chain);
    let _ = sign(&msk, &id, &b).unwrap();
    kani::cover!(true, "signed");
    let s = ghost_take();
    assert!(!(s.1 == 3 && s.0[0] == a0 && s.0[1] == x && s.0[2] == k1),
        "two different arrangements of rights and secrets feed the same bytes to the MAC (no length framing)");
    std::mem::forget(b);
    std::mem::forget(msk);
}
