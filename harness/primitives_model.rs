//! Model-tier harnesses for `core::primitives` (injected as `src/core/primitives/verif_k.rs`,
//! built with `--no-default-features --features cosmian_cover_crypt_verif`).
use super::*;
use crate::core::TracingPublicKey;
use crate::verif_model::toy_group::{ToyPoint, ToyScalar};

fn scalar_nz() -> ToyScalar {
    let v: u8 = kani::any();
    kani::assume(v >= 1 && (v as u16) < crate::verif_model::toy_group::P);
    ToyScalar::new(v)
}
fn scalar() -> ToyScalar {
    let v: u8 = kani::any();
    kani::assume((v as u16) < crate::verif_model::toy_group::P);
    ToyScalar::new(v)
}

/// G1 probe: classic, tracing level 1, one target, user holds the matching secret.
#[kani::proof]
#[kani::unwind(2)]
#[kani::stub(zeroize::optimization_barrier, nop_barrier)]
#[kani::stub(alloc::fmt::format, no_format)]
fn g1_kem_classic_1x1() {
    let mut rng = SymRng;
    let s = scalar_nz();
    let t0 = scalar_nz();
    let t1 = scalar_nz();
    let a0 = scalar();
    // a1 solves a0*t0 + a1*t1 = s
    let a1 = ((&s - &(&a0 * &t0)) / &t1).unwrap();
    let h = ToyPoint::from(&s);
    let p0 = ToyPoint::from(&t0);
    let p1 = ToyPoint::from(&t1);
    let x = scalar_nz();
    let pk = RightPublicKey::Classic { H: &h * &x };

    let S = Secret::random(&mut rng);
    let r = G_hash(&S).unwrap();
    let c = vec![&p0 * &r, &p1 * &r];
    let (ss, enc) = c_encaps(S, c, r, vec![&pk]).unwrap();

    let right = Right(vec![]);
    let mut id = LinkedList::new();
    id.push_back(a0);
    id.push_back(a1);
    let mut secrets = RevisionVec::new();
    secrets.create_chain_with_single_value(right, RightSecretKey::Classic { sk: x });
    let usk = UserSecretKey {
        id: UserId(id),
        ps: vec![p0, p1],
        secrets,
        signature: None,
    };
    let res = decaps(&mut rng, &usk, &enc).unwrap();
    kani::cover!(res.is_some(), "decaps returned Some");
    assert!(res.is_some());
    assert!(eq32(&**res.as_ref().unwrap(), &*ss));
    std::mem::forget(res);
    std::mem::forget(ss);
    std::mem::forget(usk);
    std::mem::forget(enc);
    std::mem::forget(pk);
}
