//! C13, read halves on minimal shapes, second file (injected as `src/core/serialization/verif_k8.rs`, model build):
//! encapsulations and the encrypted header. Same method as serialization_min.rs: the wire image W(v) is spelled out,
//! `read(W(v))` must consume every byte and return v field by field.
use super::*;
use crate::core::Tag;
use crate::verif_model::toy_group::{ToyPoint, P};
use cosmian_crypto_core::bytes_ser_de::{Deserializer, Serializable};

fn elt() -> u8 {
    let v: u8 = kani::any();
    kani::assume((v as u16) < P);
    v
}

macro_rules! stubs {
    (fn $name:ident() $body:block) => {
        #[kani::proof]
        #[kani::unwind(4)]
        #[kani::stub(zeroize::optimization_barrier, nop_barrier)]
        #[kani::stub(alloc::fmt::format, no_format)]
        #[kani::stub(<std::io::Error as std::fmt::Display>::fmt, io_error_display_nop)]
        #[kani::stub(<std::num::TryFromIntError as std::fmt::Display>::fmt, try_from_int_display_nop)]
        fn $name() $body
    };
}

// classic encapsulation, 2 traps, 2 right-encapsulations:  W = tag(16) | 2 c0 c1 | 0 | 2 | F0(32) | F1(32)
stubs! {
fn zr_xenc_classic_read() {
    let tag: Tag = kani::any();
    let f0: [u8; SHARED_SECRET_LENGTH] = kani::any();
    let f1: [u8; SHARED_SECRET_LENGTH] = kani::any();
    let (c0, c1) = (elt(), elt());
    let mut w = [0u8; 16 + 3 + 2 + 64];
    w[..16].copy_from_slice(&tag);
    w[16] = 2;
    w[17] = c0;
    w[18] = c1;
    w[19] = 0;
    w[20] = 2;
    w[21..53].copy_from_slice(&f0);
    w[53..85].copy_from_slice(&f1);
    let mut de = Deserializer::new(&w);
    let x = XEnc::read(&mut de).unwrap();
    kani::cover!(f0 != f1 && c0 != c1, "distinct traps and right-encapsulations");
    assert!(de.value().is_empty(), "bytes left over after reading the encapsulation");
    assert!(x.tag == tag, "tag changed");
    assert!(x.c.len() == 2 && x.c[0] == ToyPoint(c0) && x.c[1] == ToyPoint(c1), "traps changed / reordered");
    match &x.encapsulations {
        Encapsulations::CEncs(v) => assert!(v.len() == 2 && v[0] == f0 && v[1] == f1, "right-encapsulations changed / reordered"),
        _ => assert!(false, "flavour of the encapsulation changed"),
    }
    assert!(x.tracing_level() == 1 && x.count() == 2);
    std::mem::forget(x);
}
}

// hybridized encapsulation, 1 trap, 1 right-encapsulation:  W = tag(16) | 1 c0 | 1 | 1 | E(4) F(32)
stubs! {
fn zr_xenc_hybrid_read() {
    let tag: Tag = kani::any();
    let f0: [u8; SHARED_SECRET_LENGTH] = kani::any();
    let e: [u8; 4] = kani::any();
    let c0 = elt();
    let mut w = [0u8; 16 + 2 + 2 + 4 + 32];
    w[..16].copy_from_slice(&tag);
    w[16] = 1;
    w[17] = c0;
    w[18] = 1;
    w[19] = 1;
    w[20..24].copy_from_slice(&e);
    w[24..56].copy_from_slice(&f0);
    let mut de = Deserializer::new(&w);
    let x = XEnc::read(&mut de).unwrap();
    kani::cover!(true, "reached");
    assert!(de.value().is_empty(), "bytes left over after reading the encapsulation");
    assert!(x.tag == tag && x.c.len() == 1 && x.c[0] == ToyPoint(c0), "tag / trap changed");
    match &x.encapsulations {
        Encapsulations::HEncs(v) => assert!(v.len() == 1 && v[0].0 .0 == e && v[0].1 == f0, "right-encapsulation changed"),
        _ => assert!(false, "flavour of the encapsulation changed"),
    }
    std::mem::forget(x);
}
}

// encrypted header over the smallest encapsulation (no trap, classic, no right-encapsulation: 19 bytes):
//   absent metadata = empty vector on the wire:  W = tag | 0 | 0 | 0 | 0
//   one byte of metadata:                        W = tag | 0 | 0 | 0 | 1 m
stubs! {
fn zr_header_metadata_read() {
    use crate::EncryptedHeader;
    let tag: Tag = kani::any();
    let m: u8 = kani::any();
    let mut w0 = [0u8; 20];
    w0[..16].copy_from_slice(&tag);
    let mut de = Deserializer::new(&w0);
    let h0 = EncryptedHeader::read(&mut de).unwrap();
    assert!(de.value().is_empty(), "bytes left over after reading the header");
    assert!(h0.encrypted_metadata.is_none(), "empty metadata on the wire must read back as absent");
    assert!(h0.encapsulation.tag == tag);
    let mut w1 = [0u8; 21];
    w1[..16].copy_from_slice(&tag);
    w1[19] = 1;
    w1[20] = m;
    let mut de = Deserializer::new(&w1);
    let h1 = EncryptedHeader::read(&mut de).unwrap();
    kani::cover!(true, "reached");
    assert!(de.value().is_empty(), "bytes left over after reading the header");
    match &h1.encrypted_metadata {
        Some(v) => assert!(v.len() == 1 && v[0] == m, "metadata changed"),
        None => assert!(false, "metadata lost"),
    }
    std::mem::forget(h0);
    std::mem::forget(h1);
}
}
