//! Second file of model-tier harnesses for `core::primitives` (injected as `src/core/primitives/verif_k4.rs`): kept apart
//! from primitives_model.rs so that adding a harness does not invalidate the cached results of the others.
use super::*;
use crate::verif_model::toy_group::{ToyPoint, ToyScalar};

fn scalar_nz() -> ToyScalar {
    let v: u8 = kani::any();
    kani::assume(v >= 1 && (v as u16) < crate::verif_model::toy_group::P);
    ToyScalar::new(v)
}

/// C18 Y-full, two targets: an honest classic encapsulation for the rights {[], [1]} is opened by a master key holding
/// both (one secret each, activation flags symbolic): the audience reported is exactly the set of targeted rights whose
/// secret is activated -- not a subset of it (a search that stops at the first opened right-encapsulation loses one) --
/// with the encapsulated secret; it fails iff neither is activated.
#[kani::proof]
#[kani::unwind(3)]
#[kani::stub(zeroize::optimization_barrier, nop_barrier)]
#[kani::stub(alloc::fmt::format, no_format)]
fn y_full_decaps_2x2() {
    let mut rng = SymRng;
    let s = scalar_nz();
    let t0 = scalar_nz();
    let t1 = scalar_nz();
    let x0 = scalar_nz();
    let x1 = scalar_nz();
    kani::assume(x0 != x1);
    let act0: bool = kani::any();
    let act1: bool = kani::any();
    let h = ToyPoint::from(&s);
    let p0 = ToyPoint::from(&t0);
    let p1 = ToyPoint::from(&t1);
    let pk0 = RightPublicKey::Classic { H: &h * &x0 };
    let pk1 = RightPublicKey::Classic { H: &h * &x1 };
    let S = Secret::random(&mut rng);
    let r = G_hash(&S).unwrap();
    let c = vec![&p0 * &r, &p1 * &r];
    let (ss, enc) = c_encaps(S, c, r, vec![&pk0, &pk1]).unwrap();
    let mut tracers = LinkedList::new();
    tracers.push_back((t0, p0));
    tracers.push_back((t1, p1));
    let mut secrets = RevisionMap::new();
    let mut chain0 = LinkedList::new();
    chain0.push_back((act0, RightSecretKey::Classic { sk: x0 }));
    secrets.map.insert(Right(vec![]), chain0);
    let mut chain1 = LinkedList::new();
    chain1.push_back((act1, RightSecretKey::Classic { sk: x1 }));
    secrets.map.insert(Right(vec![1]), chain1);
    let msk = MasterSecretKey {
        tsk: crate::core::TracingSecretKey { s, tracers, users: HashSet::new() },
        secrets,
        signing_key: None,
        access_structure: AccessStructure::default(),
    };
    let res = full_decaps(&msk, &enc);
    kani::cover!(act0 && act1, "both rights activated");
    kani::cover!(act0 != act1, "one right disabled");
    kani::cover!(!act0 && !act1, "both rights disabled");
    if act0 || act1 {
        assert!(res.is_ok(), "the master key must open an encapsulation for a right it holds");
        let (got, rights) = res.as_ref().unwrap();
        assert!(eq32(&**got, &*ss), "full_decaps recovered a different secret");
        assert!(rights.contains(&Right(vec![])) == act0, "audience: the first targeted right is reported iff its secret is activated");
        assert!(rights.contains(&Right(vec![1])) == act1, "audience: the second targeted right is reported iff its secret is activated");
        assert!(rights.len() == (act0 as usize) + (act1 as usize), "audience holds a right that was not targeted");
    } else {
        assert!(res.is_err(), "an encapsulation none of whose rights is activated must not be re-encapsulated");
    }
    std::mem::forget(res);
    std::mem::forget(ss);
    std::mem::forget(enc);
    std::mem::forget(msk);
    std::mem::forget(pk0);
    std::mem::forget(pk1);
}
