//! Model-tier harnesses for the key layer of `core::primitives` (rekey, prune, update_msk,
//! refresh_coordinate_keys, mpk) -- injected as `src/core/primitives/verif_k2.rs`, built with
//! `--no-default-features --features cosmian_cover_crypt_verif`. The master key is built by struct literal
//! (an arbitrary valid state of the stated shape, all secret values symbolic), ONE operation is applied, the
//! post-state is asserted. No signing key, so these harnesses never reach the hash oracle.
//! Style: straight-line construction, concrete shapes, symbolic values (symbolic shapes cost 10x more).
use super::*;
use crate::core::TracingSecretKey;
use crate::verif_model::toy_group::{ToyPoint, ToyScalar, P};
use crate::verif_model::toy_kem::ToyDk;

macro_rules! ll {
    ($($e:expr),*) => {{
        #[allow(unused_mut)]
        let mut l = LinkedList::new();
        $( l.push_back($e); )*
        l
    }};
}

fn secret(v: u8, hybrid: bool) -> RightSecretKey {
    if hybrid {
        RightSecretKey::Hybridized {
            sk: ToyScalar::new(v),
            dk: ToyDk([v, 0]),
        }
    } else {
        RightSecretKey::Classic {
            sk: ToyScalar::new(v),
        }
    }
}
fn elt() -> u8 {
    let v: u8 = kani::any();
    kani::assume(v >= 1 && (v as u16) < P);
    v
}
/// Four pairwise distinct non-zero field elements (distinct secrets, as the CSPRNG gives w.h.p.).
fn distinct4() -> [u8; 4] {
    let v = [elt(), elt(), elt(), elt()];
    kani::assume(v[0] != v[1] && v[0] != v[2] && v[0] != v[3]);
    kani::assume(v[1] != v[2] && v[1] != v[3] && v[2] != v[3]);
    v
}
fn mk_tsk(s: u8, t0: u8, t1: u8) -> TracingSecretKey {
    TracingSecretKey {
        s: ToyScalar::new(s),
        tracers: ll![
            (ToyScalar::new(t0), ToyPoint::from(&ToyScalar::new(t0))),
            (ToyScalar::new(t1), ToyPoint::from(&ToyScalar::new(t1)))
        ],
        users: HashSet::new(),
    }
}
fn mk_msk(s: u8) -> MasterSecretKey {
    MasterSecretKey {
        tsk: mk_tsk(s, 1, 2),
        secrets: RevisionMap::new(),
        signing_key: None,
        access_structure: AccessStructure::default(),
    }
}
fn sk_of(k: &RightSecretKey) -> u8 {
    match k {
        RightSecretKey::Hybridized { sk, .. } => sk.0[0],
        RightSecretKey::Classic { sk } => sk.0[0],
    }
}
fn r0() -> Right {
    Right(vec![])
}
fn r1() -> Right {
    Right(vec![1])
}

// ------------------------------------------------------------------------------------------------
// C04 R-merge / C05 P-refresh: refresh_coordinate_keys on one right.
// History H = h0 (newest) .. h3 (oldest), pairwise distinct. The master chain is H[0..m] (what survived the
// prunes), the user chain is the contiguous segment H[a..=b] (what the key has held since its last refresh).
// ------------------------------------------------------------------------------------------------
fn check_refreshed(got: &LinkedList<RightSecretKey>, h: &[u8; 4], m: usize, a: usize, b: usize) {
    let mut it = got.iter();
    let first = it.next();
    kani::cover!(first.is_some(), "refreshed chain non-empty");
    assert!(first.is_some());
    // C04: a refreshed key follows the master key: it holds the newest secret (first)
    assert!(sk_of(first.unwrap()) == h[0], "refreshed chain does not start with the newest master secret");
    // C05: nothing outside the current master chain survives a refresh
    let mut n = 1;
    let mut present = [true, false, false, false];
    while let Some(k) = it.next() {
        let v = sk_of(k);
        let mut in_master = false;
        let mut j = 0;
        while j < m {
            if v == h[j] {
                in_master = true;
                present[j] = true;
            }
            j += 1;
        }
        assert!(in_master, "refreshed chain holds a secret the master key no longer has (pruned secret kept)");
        n += 1;
        assert!(n <= 4);
    }
    // C04 keep-old: every secret the user held that the master key still has is kept
    let mut k = a;
    while k <= b {
        if k < m {
            assert!(present[k], "a secret still in the master key was lost by refresh(keep_old=true)");
        }
        k += 1;
    }
}

macro_rules! refresh_chain_harness {
    ($name:ident, $m:expr, $a:expr, $b:expr, $hyb:expr, master [$($mi:expr),*], user [$($ui:expr),*]) => {
        #[kani::proof]
        #[kani::unwind(5)]
        #[kani::stub(zeroize::optimization_barrier, nop_barrier)]
        #[kani::stub(alloc::fmt::format, no_format)]
        fn $name() {
            let h = distinct4();
            let mut msk = mk_msk(elt());
            msk.secrets.map.insert(r0(), ll![$( (true, secret(h[$mi], $hyb)) ),*]);
            let mut usk_rights = RevisionVec::new();
            usk_rights.insert_new_chain(r0(), ll![$( secret(h[$ui], $hyb) ),*]);
            let out = refresh_coordinate_keys(&msk, usk_rights);
            assert!(out.len() == 1, "the right is known to the master key: its chain must survive");
            let (_, chain) = out.iter().next().unwrap();
            check_refreshed(chain, &h, $m, $a, $b);
            std::mem::forget(out);
            std::mem::forget(msk);
        }
    };
}
// name: m<master len>_u<a><b>
refresh_chain_harness!(k_refresh_m1_u00, 1, 0, 0, false, master [0], user [0]);          // up to date
refresh_chain_harness!(k_refresh_m2_u11, 2, 1, 1, false, master [0, 1], user [1]);       // one rekey behind
refresh_chain_harness!(k_refresh_m1_u11, 1, 1, 1, false, master [0], user [1]);          // user's only secret pruned
refresh_chain_harness!(k_refresh_m1_u12, 1, 1, 2, false, master [0], user [1, 2]);       // user's chain pruned entirely
refresh_chain_harness!(k_refresh_m2_u13, 2, 1, 3, false, master [0, 1], user [1, 2, 3]); // straddles the prune point
refresh_chain_harness!(k_refresh_m1_u02, 1, 0, 2, false, master [0], user [0, 1, 2]);    // up to date, old ones pruned
refresh_chain_harness!(k_refresh_m3_u12, 3, 1, 2, false, master [0, 1, 2], user [1, 2]); // behind, nothing pruned
refresh_chain_harness!(k_refresh_m3_u22, 3, 2, 2, false, master [0, 1, 2], user [2]);    // two rekeys behind
refresh_chain_harness!(k_refresh_m2_u22, 2, 2, 2, false, master [0, 1], user [2]);       // pruned, two new ones
refresh_chain_harness!(k_refresh_m2_u23, 2, 2, 3, false, master [0, 1], user [2, 3]);
refresh_chain_harness!(k_refresh_m2_u02, 2, 0, 2, false, master [0, 1], user [0, 1, 2]);
refresh_chain_harness!(k_refresh_m2_u11_hyb, 2, 1, 1, true, master [0, 1], user [1]);
refresh_chain_harness!(k_refresh_m1_u12_hyb, 1, 1, 2, true, master [0], user [1, 2]);

/// C05: a right the master key no longer has is dropped from the key by refresh_coordinate_keys.
#[kani::proof]
#[kani::unwind(4)]
#[kani::stub(zeroize::optimization_barrier, nop_barrier)]
#[kani::stub(alloc::fmt::format, no_format)]
fn k_refresh_drops_unknown_right() {
    let h = distinct4();
    let mut msk = mk_msk(elt());
    msk.secrets.map.insert(r0(), ll![(true, secret(h[0], false))]);
    let mut usk_rights = RevisionVec::new();
    usk_rights.create_chain_with_single_value(r1(), secret(h[1], false));
    usk_rights.create_chain_with_single_value(r0(), secret(h[0], false));
    let out = refresh_coordinate_keys(&msk, usk_rights);
    kani::cover!(out.len() == 1, "one chain left");
    assert!(out.len() == 1, "the deleted right must leave the key, the other one must stay");
    let (r, chain) = out.iter().next().unwrap();
    assert!(r.0.is_empty());
    assert!(chain.len() == 1 && sk_of(chain.front().unwrap()) == h[0]);
    std::mem::forget(out);
    std::mem::forget(msk);
}

// ------------------------------------------------------------------------------------------------
// rekey: C04 (fresh front), C06 (activation flag carried over), C11 (flavour kept), C16 (fresh value)
// ------------------------------------------------------------------------------------------------
macro_rules! rekey_harness {
    ($name:ident, $len:expr, chain [$($ci:expr),*]) => {
        #[kani::proof]
        #[kani::unwind(4)]
        #[kani::stub(zeroize::optimization_barrier, nop_barrier)]
        #[kani::stub(alloc::fmt::format, no_format)]
        fn $name() {
            let h = distinct4();
            let act: bool = kani::any();
            let hyb: bool = kani::any();
            let mut msk = mk_msk(elt());
            // the front carries the symbolic activation flag; older secrets were activated when created
            msk.secrets.map.insert(r0(), ll![$( (if $ci == 0 { act } else { true }, secret(h[$ci], hyb)) ),*]);
            let mut rng = SymRng;
            let mut set = HashSet::new();
            set.insert(r0());
            let res = rekey(&mut rng, &mut msk, set);
            assert!(res.is_ok(), "rekey of a right the master key holds must succeed");
            let c = msk.secrets.get(&r0()).unwrap();
            kani::cover!(!act, "right was disabled before the rekey");
            kani::cover!(hyb, "hybridized right");
            assert!(c.len() == $len + 1, "rekey must prepend exactly one secret");
            let mut it = c.iter();
            let front = it.next().unwrap();
            // C11: flavour of the new secret = flavour of the old front
            assert!(front.1.is_hybridized() == hyb, "rekey changed the flavour of the right");
            // C06: a disabled right stays disabled through rekey
            assert!(front.0 == act, "rekey re-activated a disabled right (activation flag not carried over)");
            // older secrets untouched, in order
            $(
                let e = it.next().unwrap();
                assert!(e.0 == (if $ci == 0 { act } else { true }) && sk_of(&e.1) == h[$ci] && e.1.is_hybridized() == hyb);
            )*
            std::mem::forget(res);
            std::mem::forget(msk);
        }
    };
}
rekey_harness!(k_rekey_chain1, 1, chain [0]);
rekey_harness!(k_rekey_chain2, 2, chain [0, 1]);

/// C04/C06/C11: mpk() publishes, for each right, the public image of the FRONT of its chain, with the
/// front's flavour, iff the front is activated.
#[kani::proof]
#[kani::unwind(4)]
#[kani::stub(zeroize::optimization_barrier, nop_barrier)]
#[kani::stub(alloc::fmt::format, no_format)]
fn k_mpk_publishes_activated_fronts() {
    let h = distinct4();
    let act0: bool = kani::any();
    let act1: bool = kani::any();
    let hyb0: bool = kani::any();
    let s = elt();
    let mut msk = mk_msk(s);
    msk.secrets.map.insert(r0(), ll![(act0, secret(h[0], hyb0)), (true, secret(h[1], !hyb0))]);
    msk.secrets.map.insert(r1(), ll![(act1, secret(h[2], false))]);
    let mpk = msk.mpk().unwrap();
    kani::cover!(act0 && !act1, "one right disabled");
    let hpt = ToyPoint::from(&ToyScalar::new(s));
    let pk0 = mpk.encryption_keys.get(&r0());
    assert!(pk0.is_some() == act0, "mpk publishes a key for a disabled right / hides an enabled one");
    if let Some(pk) = pk0 {
        let expect = &hpt * &ToyScalar::new(h[0]);
        match pk {
            RightPublicKey::Classic { H } => assert!(!hyb0 && *H == expect, "public key is not the image of the front secret"),
            RightPublicKey::Hybridized { H, ek } => assert!(hyb0 && *H == expect && ek.0 == [h[0], 0]),
        }
    }
    let pk1 = mpk.encryption_keys.get(&r1());
    assert!(pk1.is_some() == act1);
    assert!(mpk.encryption_keys.len() == (act0 as usize) + (act1 as usize));
    // C17: the public tracers are the master tracers' points, in order
    let mut tp = mpk.tpk.0.iter();
    assert!(*tp.next().unwrap() == ToyPoint::from(&ToyScalar::new(1)));
    assert!(*tp.next().unwrap() == ToyPoint::from(&ToyScalar::new(2)));
    assert!(tp.next().is_none());
    std::mem::forget(mpk);
    std::mem::forget(msk);
}

/// Lighter twin of `k_mpk_publishes_activated_fronts` (one right, chain of two): the published key is the image of
/// the FRONT secret and exists iff the front is activated -- never an older secret.
#[kani::proof]
#[kani::unwind(4)]
#[kani::stub(zeroize::optimization_barrier, nop_barrier)]
#[kani::stub(alloc::fmt::format, no_format)]
fn k_mpk_front_single_right() {
    let h = distinct4();
    let act0: bool = kani::any();
    let s = elt();
    let mut msk = mk_msk(s);
    msk.secrets.map.insert(r0(), ll![(act0, secret(h[0], false)), (true, secret(h[1], false))]);
    let mpk = msk.mpk().unwrap();
    kani::cover!(!act0, "front disabled, older secret activated");
    let pk0 = mpk.encryption_keys.get(&r0());
    assert!(pk0.is_some() == act0, "mpk publishes a key for a right whose front secret is disabled");
    if let Some(RightPublicKey::Classic { H }) = pk0 {
        let hpt = ToyPoint::from(&ToyScalar::new(s));
        assert!(*H == &hpt * &ToyScalar::new(h[0]), "public key is not the image of the front secret");
    }
    std::mem::forget(mpk);
    std::mem::forget(msk);
}

/// C09 + C10 T-rekey: rekey over {known, unknown} fails and leaves the master key as it was,
/// whatever the processing order of the set.
macro_rules! rekey_unknown_harness {
    ($name:ident, $first:expr, $second:expr) => {
        #[kani::proof]
        #[kani::unwind(4)]
        #[kani::stub(zeroize::optimization_barrier, nop_barrier)]
        #[kani::stub(alloc::fmt::format, no_format)]
        fn $name() {
            let h = distinct4();
            let mut msk = mk_msk(elt());
            msk.secrets.map.insert(r0(), ll![(true, secret(h[0], false))]);
            let mut rng = SymRng;
            let mut set = HashSet::new();
            set.insert($first);
            set.insert($second);
            let res = rekey(&mut rng, &mut msk, set);
            kani::cover!(true, "reached");
            assert!(res.is_err(), "rekey of a right the master key does not hold must fail");
            let c = msk.secrets.get(&r0()).unwrap();
            assert!(c.len() == 1 && sk_of(&c.front().unwrap().1) == h[0], "failed rekey rotated part of the rights");
            assert!(msk.secrets.len() == 1);
            std::mem::forget(res);
            std::mem::forget(msk);
        }
    };
}
rekey_unknown_harness!(k_rekey_unknown_last, r0(), Right(vec![7]));
rekey_unknown_harness!(k_rekey_unknown_first, Right(vec![7]), r0());

// ------------------------------------------------------------------------------------------------
// prune: C05 P-prune
// ------------------------------------------------------------------------------------------------
macro_rules! prune_harness {
    ($name:ident, chain [$($ci:expr),*]) => {
        #[kani::proof]
        #[kani::unwind(5)]
        #[kani::stub(zeroize::optimization_barrier, nop_barrier)]
        #[kani::stub(alloc::fmt::format, no_format)]
        fn $name() {
            let h = distinct4();
            let act: bool = kani::any();
            let mut msk = mk_msk(elt());
            msk.secrets.map.insert(r0(), ll![$( (if $ci == 0 { act } else { true }, secret(h[$ci], false)) ),*]);
            msk.secrets.map.insert(r1(), ll![(true, secret(h[3], false)), (true, secret(h[2], false))]);
            let mut set = HashSet::new();
            set.insert(r0());
            prune(&mut msk, &set);
            kani::cover!(true, "reached");
            let c = msk.secrets.get(&r0()).unwrap();
            assert!(c.len() == 1, "prune must leave exactly the newest secret");
            assert!(sk_of(&c.front().unwrap().1) == h[0] && c.front().unwrap().0 == act);
            let o = msk.secrets.get(&r1()).unwrap();
            assert!(o.len() == 2 && sk_of(&o.front().unwrap().1) == h[3] && sk_of(&o.back().unwrap().1) == h[2], "prune touched another right");
            std::mem::forget(msk);
        }
    };
}
prune_harness!(k_prune_chain1, chain [0]);
prune_harness!(k_prune_chain2, chain [0, 1]);
prune_harness!(k_prune_chain3, chain [0, 1, 2]);

// ------------------------------------------------------------------------------------------------
// update_msk: C05 P-update, C06 D-flag, C09, C10 T-update, C11 H-keys
// ------------------------------------------------------------------------------------------------
fn hint(h: bool) -> EncryptionHint {
    if h {
        EncryptionHint::Hybridized
    } else {
        EncryptionHint::Classic
    }
}
fn status(a: bool) -> AttributeStatus {
    if a {
        AttributeStatus::EncryptDecrypt
    } else {
        AttributeStatus::DecryptOnly
    }
}

/// Existing right: flag and flavour follow the structure, chain kept. Right outside the universe: dropped.
#[kani::proof]
#[kani::unwind(4)]
#[kani::stub(zeroize::optimization_barrier, nop_barrier)]
#[kani::stub(alloc::fmt::format, no_format)]
fn k_update_existing_right() {
    let h = distinct4();
    let old_act: bool = kani::any();
    let old_hyb: bool = kani::any();
    let mut msk = mk_msk(elt());
    msk.secrets.map.insert(r0(), ll![(old_act, secret(h[0], old_hyb)), (true, secret(h[1], old_hyb))]);
    msk.secrets.map.insert(Right(vec![9]), ll![(true, secret(h[2], false))]);
    let mut rng = SymRng;
    let new_hint: bool = kani::any();
    let new_act: bool = kani::any();
    let mut rights = HashMap::new();
    rights.insert(r0(), (hint(new_hint), status(new_act)));
    let res = update_msk(&mut rng, &mut msk, rights);
    assert!(res.is_ok());
    kani::cover!(!new_act, "right disabled by the update");
    kani::cover!(old_hyb && !new_hint, "hybridization dropped");
    // C05: the right absent from the universe is gone
    assert!(!msk.secrets.contains_key(&Right(vec![9])), "update kept a right outside the structure");
    assert!(msk.secrets.len() == 1);
    let c = msk.secrets.get(&r0()).unwrap();
    assert!(c.len() == 2);
    let f = c.front().unwrap();
    let b = c.back().unwrap();
    assert!(sk_of(&f.1) == h[0] && sk_of(&b.1) == h[1] && b.0);
    // C06: the activation flag is recomputed from the structure
    assert!(f.0 == new_act, "activation flag not recomputed from the structure");
    // C11: hybrid only if it was and still is asked for
    assert!(f.1.is_hybridized() == (old_hyb && new_hint), "flavour of an existing right after update");
    std::mem::forget(res);
    std::mem::forget(msk);
}

/// New right: born activated, flavour = hint (C11); the public key follows (C06).
#[kani::proof]
#[kani::unwind(4)]
#[kani::stub(zeroize::optimization_barrier, nop_barrier)]
#[kani::stub(alloc::fmt::format, no_format)]
fn k_update_new_right() {
    let mut msk = mk_msk(elt());
    let mut rng = SymRng;
    let add_hint: bool = kani::any();
    let mut rights = HashMap::new();
    rights.insert(r1(), (hint(add_hint), status(true)));
    let res = update_msk(&mut rng, &mut msk, rights);
    assert!(res.is_ok());
    kani::cover!(add_hint, "hybridized new right");
    let n = msk.secrets.get(&r1()).unwrap();
    assert!(n.len() == 1 && n.front().unwrap().0, "new right must be created activated");
    assert!(n.front().unwrap().1.is_hybridized() == add_hint, "new right flavour must follow its hint");
    std::mem::forget(res);
    std::mem::forget(msk);
}

/// C09 + C10 T-update: adding a right that is born DecryptOnly fails, and the failed update leaves the
/// master key's secrets exactly as they were (both processing orders of the map).
macro_rules! update_fails_harness {
    ($name:ident, $bad_first:expr) => {
        #[kani::proof]
        #[kani::unwind(4)]
        #[kani::stub(zeroize::optimization_barrier, nop_barrier)]
        #[kani::stub(alloc::fmt::format, no_format)]
        fn $name() {
            let h = distinct4();
            let mut msk = mk_msk(elt());
            msk.secrets.map.insert(r0(), ll![(true, secret(h[0], false)), (true, secret(h[1], false))]);
            let mut rng = SymRng;
            let mut rights = HashMap::new();
            if $bad_first {
                rights.insert(Right(vec![3]), (hint(false), status(false)));
                rights.insert(r0(), (hint(false), status(true)));
            } else {
                rights.insert(r0(), (hint(false), status(true)));
                rights.insert(Right(vec![3]), (hint(false), status(false)));
            }
            let res = update_msk(&mut rng, &mut msk, rights);
            kani::cover!(true, "reached");
            assert!(res.is_err(), "a right cannot be born DecryptOnly");
            let c = msk.secrets.get(&r0());
            assert!(c.is_some(), "failed update_msk lost the master secrets");
            let c = c.unwrap();
            assert!(c.len() == 2 && sk_of(&c.front().unwrap().1) == h[0] && sk_of(&c.back().unwrap().1) == h[1]);
            assert!(msk.secrets.len() == 1, "failed update_msk left a partial update behind");
            std::mem::forget(res);
            std::mem::forget(msk);
        }
    };
}
update_fails_harness!(k_update_fails_bad_first, true);
update_fails_harness!(k_update_fails_bad_last, false);

// ------------------------------------------------------------------------------------------------
// refresh (no signing key): C09 A-keys, C10 T-refresh, C17 (id kept / unknown id refused)
// ------------------------------------------------------------------------------------------------
// (a macro, not a function: a struct returned by value is moved with memcpy, after which CBMC no longer
// constant-propagates the lengths stored in it and every later allocation sized by them becomes unbounded)
macro_rules! mk_usk {
    ($a0:expr, $a1:expr, $secrets:expr) => {
        UserSecretKey {
            id: UserId(ll![ToyScalar::new($a0), ToyScalar::new($a1)]),
            ps: vec![ToyPoint::from(&ToyScalar::new(1)), ToyPoint::from(&ToyScalar::new(2))],
            secrets: $secrets,
            signature: None,
        }
    };
}
fn id_is(usk: &UserSecretKey, a0: u8, a1: u8) -> bool {
    let mut it = usk.id.iter();
    match (it.next(), it.next(), it.next()) {
        (Some(x), Some(y), None) => x.0[0] == a0 && y.0[0] == a1,
        _ => false,
    }
}

/// Issued key (id known), one right rotated since: refresh with either flag succeeds, keeps the id, and the
/// key holds the newest secret first (keep=false: only that one).
macro_rules! refresh_ok_harness {
    ($name:ident, $keep:expr) => {
        #[kani::proof]
        #[kani::unwind(4)]
        #[kani::stub(zeroize::optimization_barrier, nop_barrier)]
        #[kani::stub(alloc::fmt::format, no_format)]
        fn $name() {
            let h = distinct4();
            let mut msk = mk_msk(elt());
            msk.secrets.map.insert(r0(), ll![(true, secret(h[0], false)), (true, secret(h[1], false))]);
            msk.tsk.users.insert(UserId(ll![ToyScalar::new(3), ToyScalar::new(5)]));
            let mut rv = RevisionVec::new();
            rv.create_chain_with_single_value(r0(), secret(h[1], false));
            let mut usk = mk_usk!(3, 5, rv);
            let mut rng = SymRng;
            let res = refresh(&mut rng, &mut msk, &mut usk, $keep);
            kani::cover!(true, "reached");
            assert!(res.is_ok(), "refresh of an issued key must succeed");
            assert!(id_is(&usk, 3, 5), "refresh changed the id of a key whose tracing level is in sync");
            assert!(usk.secrets.len() == 1);
            let (_, c) = usk.secrets.iter().next().unwrap();
            assert!(sk_of(c.front().unwrap()) == h[0], "refreshed key does not start with the newest secret");
            if $keep {
                assert!(c.len() == 2 && sk_of(c.back().unwrap()) == h[1]);
            } else {
                assert!(c.len() == 1, "refresh without keeping old secrets must leave exactly the newest secret");
            }
            assert!(msk.tsk.users.len() == 1);
            std::mem::forget(res);
            std::mem::forget(usk);
            std::mem::forget(msk);
        }
    };
}
refresh_ok_harness!(k_refresh_ok_keep, true);
refresh_ok_harness!(k_refresh_ok_nokeep, false);

/// C09: an issued key holding a right that was deleted from the master key since: refresh succeeds with
/// either flag and the deleted right leaves the key, the other right stays.
macro_rules! refresh_deleted_harness {
    ($name:ident, $keep:expr) => {
        #[kani::proof]
        #[kani::unwind(4)]
        #[kani::stub(zeroize::optimization_barrier, nop_barrier)]
        #[kani::stub(alloc::fmt::format, no_format)]
        fn $name() {
            let h = distinct4();
            let mut msk = mk_msk(elt());
            msk.secrets.map.insert(r0(), ll![(true, secret(h[0], false))]);
            msk.tsk.users.insert(UserId(ll![ToyScalar::new(3), ToyScalar::new(5)]));
            let mut rv = RevisionVec::new();
            rv.create_chain_with_single_value(r1(), secret(h[1], false));
            rv.create_chain_with_single_value(r0(), secret(h[0], false));
            let mut usk = mk_usk!(3, 5, rv);
            let mut rng = SymRng;
            let res = refresh(&mut rng, &mut msk, &mut usk, $keep);
            kani::cover!(true, "reached");
            assert!(res.is_ok(), "refresh of an issued key must succeed whatever was deleted in between");
            assert!(id_is(&usk, 3, 5));
            assert!(usk.secrets.len() == 1, "the deleted right must leave the key, the other one must stay");
            let (r, c) = usk.secrets.iter().next().unwrap();
            assert!(r.0.is_empty() && c.len() == 1 && sk_of(c.front().unwrap()) == h[0]);
            std::mem::forget(res);
            std::mem::forget(usk);
            std::mem::forget(msk);
        }
    };
}
refresh_deleted_harness!(k_refresh_deleted_keep, true);
refresh_deleted_harness!(k_refresh_deleted_nokeep, false);

/// C17 + C10 T-refresh: a key whose id the master key does not know is refused, and the failed refresh
/// leaves the user key (id, secrets) and the master key (users) exactly as they were. (Ids concrete: the
/// question is the ordering of validation and mutation, not the values.)
macro_rules! refresh_unknown_harness {
    ($name:ident, $keep:expr) => {
        #[kani::proof]
        #[kani::unwind(4)]
        #[kani::stub(zeroize::optimization_barrier, nop_barrier)]
        #[kani::stub(alloc::fmt::format, no_format)]
        fn $name() {
            let h = distinct4();
            let mut msk = mk_msk(elt());
            msk.secrets.map.insert(r0(), ll![(true, secret(h[0], false))]);
            msk.tsk.users.insert(UserId(ll![ToyScalar::new(4), ToyScalar::new(5)]));
            let mut rv = RevisionVec::new();
            rv.create_chain_with_single_value(r0(), secret(h[0], false));
            let mut usk = mk_usk!(3, 5, rv);
            let mut rng = SymRng;
            let res = refresh(&mut rng, &mut msk, &mut usk, $keep);
            kani::cover!(true, "reached");
            assert!(res.is_err(), "a key whose id is not registered must be refused");
            assert!(id_is(&usk, 3, 5), "failed refresh emptied / changed the user key's id");
            assert!(usk.secrets.len() == 1, "failed refresh emptied the user key's secrets");
            let (_, c) = usk.secrets.iter().next().unwrap();
            assert!(c.len() == 1 && sk_of(c.front().unwrap()) == h[0]);
            assert!(msk.tsk.users.len() == 1);
            std::mem::forget(res);
            std::mem::forget(usk);
            std::mem::forget(msk);
        }
    };
}
refresh_unknown_harness!(k_refresh_unknown_id_keep, true);
refresh_unknown_harness!(k_refresh_unknown_id_nokeep, false);

/// C09 (light): `refresh(keep_old=false)` of an issued key holding ONLY a right that the master key no longer has:
/// Ok, and the key ends up without that right (the smallest state that reaches the "right deleted since" path).
#[kani::proof]
#[kani::unwind(4)]
#[kani::stub(zeroize::optimization_barrier, nop_barrier)]
#[kani::stub(alloc::fmt::format, no_format)]
fn k_refresh_only_right_deleted_nokeep() {
    let h = distinct4();
    let mut msk = mk_msk(elt());
    msk.tsk.users.insert(UserId(ll![ToyScalar::new(3), ToyScalar::new(5)]));
    let mut rv = RevisionVec::new();
    rv.create_chain_with_single_value(r0(), secret(h[0], false));
    let mut usk = UserSecretKey {
        id: UserId(ll![ToyScalar::new(3), ToyScalar::new(5)]),
        ps: Vec::new(),
        secrets: rv,
        signature: None,
    };
    let mut rng = SymRng;
    let res = refresh(&mut rng, &mut msk, &mut usk, false);
    kani::cover!(true, "reached");
    assert!(res.is_ok(), "refresh of an issued key must succeed whatever was deleted in between");
    assert!(usk.secrets.len() == 0, "the deleted right must leave the key");
    assert!(id_is(&usk, 3, 5));
    std::mem::forget(res);
    std::mem::forget(usk);
    std::mem::forget(msk);
}


// ------------------------------------------------------------------------------------------------
// usk_keygen: C17 (id registered, tracing relation, tracer points embedded), C09 / C10 (unknown right)
// ------------------------------------------------------------------------------------------------
#[kani::proof]
#[kani::unwind(4)]
#[kani::stub(zeroize::optimization_barrier, nop_barrier)]
#[kani::stub(alloc::fmt::format, no_format)]
fn k_keygen_registers_valid_id() {
    let h = distinct4();
    let s = elt();
    let mut msk = mk_msk(s);
    msk.secrets.map.insert(r0(), ll![(true, secret(h[0], false)), (true, secret(h[1], false))]);
    let mut rng = SymRng;
    let mut set = HashSet::new();
    set.insert(r0());
    let res = usk_keygen(&mut rng, &mut msk, set);
    kani::cover!(true, "reached");
    assert!(res.is_ok(), "key generation for rights the master key holds must succeed");
    let usk = res.unwrap();
    // C17: the id is recorded in the master key and satisfies sum a_i * t_i = s (tracers are 1 and 2 here)
    assert!(msk.tsk.is_known(&usk.id) && msk.tsk.users.len() == 1, "the id of an issued key must be registered");
    {
        let mut it = usk.id.iter();
        let a0 = it.next().unwrap();
        let a1 = it.next().unwrap();
        assert!(it.next().is_none());
        assert!(&(a0 * &ToyScalar::new(1)) + &(a1 * &ToyScalar::new(2)) == ToyScalar::new(s), "markers x tracers must give the binding scalar");
    }
    // C17: the tracing points embedded in the key are the master's public tracers, in order
    assert!(usk.ps.len() == 2 && usk.ps[0] == ToyPoint::from(&ToyScalar::new(1)) && usk.ps[1] == ToyPoint::from(&ToyScalar::new(2)));
    // C04: a new key gets exactly the NEWEST secret of each right
    assert!(usk.secrets.len() == 1);
    {
        let (_, c) = usk.secrets.iter().next().unwrap();
        assert!(c.len() == 1 && sk_of(c.front().unwrap()) == h[0], "a new key must hold exactly the newest secret of its right");
    }
    assert!(usk.signature.is_none());
    std::mem::forget(usk);
    std::mem::forget(msk);
}

/// C09 + C10: key generation for a right the master key does not hold fails and registers no id.
#[kani::proof]
#[kani::unwind(4)]
#[kani::stub(zeroize::optimization_barrier, nop_barrier)]
#[kani::stub(alloc::fmt::format, no_format)]
fn k_keygen_unknown_right_atomic() {
    let h = distinct4();
    let mut msk = mk_msk(elt());
    msk.secrets.map.insert(r0(), ll![(true, secret(h[0], false))]);
    let mut rng = SymRng;
    let mut set = HashSet::new();
    let known_first: bool = kani::any();
    if known_first {
        set.insert(r0());
        set.insert(Right(vec![7]));
    } else {
        set.insert(Right(vec![7]));
        set.insert(r0());
    }
    let res = usk_keygen(&mut rng, &mut msk, set);
    kani::cover!(known_first, "held right first");
    assert!(res.is_err(), "key generation for a right the master key does not hold must fail");
    assert!(msk.tsk.users.len() == 0, "a failed key generation registered a user id");
    assert!(msk.secrets.len() == 1 && msk.secrets.get(&r0()).unwrap().len() == 1);
    std::mem::forget(res);
    std::mem::forget(msk);
}
