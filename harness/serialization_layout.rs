//! C13 by halves against an explicit wire layout (injected as `src/core/serialization/verif_k5.rs`, model build).
//! The full `read(write(v)) == v` harnesses (serialization_model.rs, serialization_narrow.rs) do not finish: the
//! Serializer's heap buffer is written and then parsed again in one query. Here the wire image W(v) of a value of a fixed
//! shape is spelled out in the harness (counts and flag positions concrete, every field value a solver variable) and the
//! two halves are decided separately:
//!   zw_*: write(v) produces exactly W(v), and length() announces its length;
//!   zr_*: read(W(v)) consumes every byte and returns v field by field (order of chains, flags, flavours, optional
//!         trailing field).
//! Together: read(write(v)) == v for every value of that shape; W also pins the wire format itself.
use super::*;
use crate::verif_model::toy_group::{ToyPoint, ToyScalar, P};
use crate::verif_model::toy_kem::ToyDk;
use cosmian_crypto_core::bytes_ser_de::{Deserializer, Serializable, Serializer};

fn elt() -> u8 {
    let v: u8 = kani::any();
    kani::assume((v as u16) < P);
    v
}
fn ser<T: Serializable>(t: &T) -> Vec<u8> {
    let mut s = Serializer::with_capacity(128);
    let r = s.write(t);
    assert!(r.is_ok());
    std::mem::forget(r);
    let z = s.finalize();
    let v = z.to_vec();
    std::mem::forget(z);
    v
}

macro_rules! stubs {
    (fn $name:ident() $body:block) => {
        #[kani::proof]
        #[kani::unwind(4)]
        #[kani::stub(zeroize::optimization_barrier, nop_barrier)]
        #[kani::stub(alloc::fmt::format, no_format)]
        #[kani::stub(<std::io::Error as std::fmt::Display>::fmt, io_error_display_nop)]
        #[kani::stub(<std::num::TryFromIntError as std::fmt::Display>::fmt, try_from_int_display_nop)]
        fn $name() $body
    };
}

// ---- user key: id [a0,a1], tracing points [p0,p1], one right named [n] with the chain
//      [Hybridized(k1, dk d0 d1), Classic(k2)] (newest first, mixed flavours), unsigned
//      W = 2 a0 a1 | 2 p0 p1 | 1 | 1 n | 2 | 1 k1 d0 d1 | 0 k2
macro_rules! usk_values {
    () => {{
        let d: [u8; 2] = kani::any();
        (elt(), elt(), elt(), elt(), kani::any::<u8>(), elt(), d, elt())
    }};
}
macro_rules! usk_wire {
    ($a0:expr, $a1:expr, $p0:expr, $p1:expr, $n:expr, $k1:expr, $d:expr, $k2:expr) => {
        [2u8, $a0, $a1, 2, $p0, $p1, 1, 1, $n, 2, 1, $k1, $d[0], $d[1], 0, $k2]
    };
}

stubs! {
fn zr_usk_read_layout() {
    let (a0, a1, p0, p1, n, k1, d, k2) = usk_values!();
    let w = usk_wire!(a0, a1, p0, p1, n, k1, d, k2);
    let mut de = Deserializer::new(&w);
    let back = UserSecretKey::read(&mut de).unwrap();
    kani::cover!(k1 != k2, "two different revisions");
    assert!(de.value().is_empty(), "bytes left over after reading the key");
    assert!(back.signature.is_none(), "a signature appeared");
    assert!(back.id.0.len() == 2 && *back.id.0.front().unwrap() == ToyScalar::new(a0) && *back.id.0.back().unwrap() == ToyScalar::new(a1), "id markers changed / reordered");
    assert!(back.ps.len() == 2 && back.ps[0] == ToyPoint(p0) && back.ps[1] == ToyPoint(p1), "tracing points changed / reordered");
    assert!(back.secrets.len() == 1);
    let (r, c) = back.secrets.iter().next().unwrap();
    assert!(r.0.len() == 1 && r.0[0] == n, "right name changed");
    assert!(c.len() == 2, "chain length changed");
    // order: the first revision on the wire is the front (newest) of the chain
    match c.front().unwrap() {
        RightSecretKey::Hybridized { sk, dk } => assert!(*sk == ToyScalar::new(k1) && dk.0[0] == d[0] && dk.0[1] == d[1], "newest revision changed (chain reversed?)"),
        _ => assert!(false, "flavour of the newest revision changed"),
    }
    match c.back().unwrap() {
        RightSecretKey::Classic { sk } => assert!(*sk == ToyScalar::new(k2), "oldest revision changed (chain reversed?)"),
        _ => assert!(false, "flavour of the oldest revision changed"),
    }
    std::mem::forget(back);
}
}

stubs! {
fn zw_usk_write_layout() {
    let (a0, a1, p0, p1, n, k1, d, k2) = usk_values!();
    let w = usk_wire!(a0, a1, p0, p1, n, k1, d, k2);
    let mut id = LinkedList::new();
    id.push_back(ToyScalar::new(a0));
    id.push_back(ToyScalar::new(a1));
    let mut chain = LinkedList::new();
    chain.push_back(RightSecretKey::Hybridized { sk: ToyScalar::new(k1), dk: ToyDk(d) });
    chain.push_back(RightSecretKey::Classic { sk: ToyScalar::new(k2) });
    let mut secrets = RevisionVec::new();
    secrets.insert_new_chain(Right(vec![n]), chain);
    let usk = UserSecretKey { id: UserId(id), ps: vec![ToyPoint(p0), ToyPoint(p1)], secrets, signature: None };
    let bytes = ser(&usk);
    kani::cover!(k1 != k2, "two different revisions");
    assert!(usk.length() == 16, "length() does not announce the serialized length");
    assert!(bytes.len() == 16, "serialized length changed");
    let b: [u8; 16] = bytes[..].try_into().unwrap();
    assert!(b == w, "wire image of the user key changed");
    std::mem::forget(usk);
    std::mem::forget(bytes);
}
}

// ---- master key: s | 1 tracer (t0,P0) | 1 user [u0] | 1 right [n]: chain [(f0, Classic k1), (f1, Hybridized k2 d0 d1)]
//      | signing key (SIGNING_KEY_LENGTH bytes) | empty access structure
//      W = s | 1 t0 P0 | 1 1 u0 | 1 | 1 n | 2 | f0 0 k1 | f1 1 k2 d0 d1 | key*16 | 0 0
stubs! {
fn zr_msk_read_layout() {
    let (s, t0, q0, u0, k1, k2) = (elt(), elt(), elt(), elt(), elt(), elt());
    let n: u8 = kani::any();
    let d: [u8; 2] = kani::any();
    let f0: bool = kani::any();
    let f1: bool = kani::any();
    let kb: u8 = kani::any();
    let mut w = [kb; 19 + SIGNING_KEY_LENGTH + 2];
    let head = [s, 1, t0, q0, 1, 1, u0, 1, 1, n, 2, f0 as u8, 0, k1, f1 as u8, 1, k2, d[0], d[1]];
    w[..19].copy_from_slice(&head);
    w[19 + SIGNING_KEY_LENGTH] = 0;
    w[19 + SIGNING_KEY_LENGTH + 1] = 0;
    let mut de = Deserializer::new(&w);
    let back = MasterSecretKey::read(&mut de).unwrap();
    kani::cover!(!f0 && f1, "front disabled, older activated");
    kani::cover!(f0 && !f1, "front activated, older disabled");
    assert!(de.value().is_empty(), "bytes left over after reading the key");
    assert!(back.tsk.s == ToyScalar::new(s), "tracing secret changed");
    assert!(back.tsk.tracers.len() == 1 && back.tsk.tracers.front().unwrap().0 == ToyScalar::new(t0) && back.tsk.tracers.front().unwrap().1 == ToyPoint(q0), "tracer changed");
    assert!(back.tsk.users.len() == 1, "registered users changed");
    assert!(back.signing_key.is_some(), "signing key lost");
    assert!(back.secrets.len() == 1);
    let c = back.secrets.get(&Right(vec![n])).unwrap();
    assert!(c.len() == 2, "chain length changed");
    assert!(c.front().unwrap().0 == f0, "activation flag of the newest secret changed");
    assert!(c.back().unwrap().0 == f1, "activation flag of the oldest secret changed");
    match &c.front().unwrap().1 {
        RightSecretKey::Classic { sk } => assert!(*sk == ToyScalar::new(k1), "newest secret changed (chain reversed?)"),
        _ => assert!(false, "flavour of the newest secret changed"),
    }
    match &c.back().unwrap().1 {
        RightSecretKey::Hybridized { sk, dk } => assert!(*sk == ToyScalar::new(k2) && dk.0[0] == d[0] && dk.0[1] == d[1], "oldest secret changed (chain reversed?)"),
        _ => assert!(false, "flavour of the oldest secret changed"),
    }
    std::mem::forget(back);
}
}
