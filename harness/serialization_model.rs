//! Model-tier harnesses for `core::serialization` and the header framing (C12 X-frame, C13 Z-rt, C14 U-parse /
//! U-use) -- injected as `src/core/serialization/verif_k.rs`, built with the model feature (1-byte group
//! elements, 2/4-byte KEM objects): the (de)serialization code itself is the crate's real code.
use super::*;
use crate::core::{KmacSignature, Tag};
use crate::verif_model::toy_group::{ToyPoint, ToyScalar, P};
use crate::verif_model::toy_kem::{ToyDk, ToyEnc};
use cosmian_crypto_core::bytes_ser_de::{Deserializer, Serializable, Serializer};
use cosmian_crypto_core::Secret;

fn elt() -> u8 {
    let v: u8 = kani::any();
    kani::assume((v as u16) < P);
    v
}
fn ser<T: Serializable>(t: &T) -> Vec<u8> {
    // one allocation of constant size: no growth/realloc paths while writing
    let mut s = Serializer::with_capacity(128);
    let r = s.write(t);
    assert!(r.is_ok());
    std::mem::forget(r);
    let z = s.finalize();
    let v = z.to_vec();
    std::mem::forget(z);
    v
}
/// Upper bound a parser may reserve for an input of `len` bytes (every element takes at least one byte).
static mut INPUT_LEN: usize = 0;
/// Stub for `Vec::with_capacity`: C14 "memory proportional to the input". A parse of L bytes has no business
/// reserving room for more than L elements (+ a small constant): a larger request is reported.
#[allow(dead_code)]
pub(crate) fn capped_with_capacity<T>(n: usize) -> Vec<T> {
    assert!(n <= unsafe { INPUT_LEN } + 8, "pre-allocation not proportional to the input (count field trusted)");
    Vec::new()
}

// ---------------------------------------------------------------- C13 round trips
#[kani::proof]
#[kani::unwind(4)]
#[kani::stub(zeroize::optimization_barrier, nop_barrier)]
#[kani::stub(alloc::fmt::format, no_format)]
#[kani::stub(<std::io::Error as std::fmt::Display>::fmt, io_error_display_nop)]
#[kani::stub(<std::num::TryFromIntError as std::fmt::Display>::fmt, try_from_int_display_nop)]
fn z_xenc_roundtrip() {
    let hyb: bool = kani::any();
    let tag: Tag = kani::any();
    let f: [u8; SHARED_SECRET_LENGTH] = kani::any();
    let e: [u8; 4] = kani::any();
    let x = XEnc {
        tag,
        c: vec![ToyPoint(elt()), ToyPoint(elt())],
        encapsulations: if hyb {
            Encapsulations::HEncs(vec![(ToyEnc(e), f)])
        } else {
            Encapsulations::CEncs(vec![f])
        },
    };
    let bytes = ser(&x);
    kani::cover!(hyb, "hybridized encapsulation");
    assert!(bytes.len() == x.length(), "length() does not announce the serialized length");
    let mut de = Deserializer::new(&bytes);
    let y = XEnc::read(&mut de).unwrap();
    assert!(de.value().is_empty(), "bytes left over after reading back");
    assert!(y.tag == x.tag && y.c == x.c);
    match (&x.encapsulations, &y.encapsulations) {
        (Encapsulations::HEncs(a), Encapsulations::HEncs(b)) => assert!(a.len() == 1 && b.len() == 1 && a[0].0 == b[0].0 && a[0].1 == b[0].1),
        (Encapsulations::CEncs(a), Encapsulations::CEncs(b)) => assert!(a.len() == 1 && b.len() == 1 && a[0] == b[0]),
        _ => assert!(false, "flavour of the encapsulation changed in the round trip"),
    }
    assert!(y.tracing_level() == 1 && y.count() == 1);
    std::mem::forget(x);
    std::mem::forget(y);
    std::mem::forget(bytes);
}

#[kani::proof]
#[kani::unwind(4)]
#[kani::stub(zeroize::optimization_barrier, nop_barrier)]
#[kani::stub(alloc::fmt::format, no_format)]
#[kani::stub(<std::io::Error as std::fmt::Display>::fmt, io_error_display_nop)]
#[kani::stub(<std::num::TryFromIntError as std::fmt::Display>::fmt, try_from_int_display_nop)]
fn z_usk_roundtrip() {
    let hyb: bool = kani::any();
    let signed: bool = kani::any();
    let sig: KmacSignature = kani::any();
    let name: u8 = kani::any();
    let mk = |v: u8| {
        if hyb {
            RightSecretKey::Hybridized { sk: ToyScalar::new(v), dk: ToyDk([v, 1]) }
        } else {
            RightSecretKey::Classic { sk: ToyScalar::new(v) }
        }
    };
    let (a0, a1, k1, k2) = (elt(), elt(), elt(), elt());
    let mut id = LinkedList::new();
    id.push_back(ToyScalar::new(a0));
    id.push_back(ToyScalar::new(a1));
    let mut chain = LinkedList::new();
    chain.push_back(mk(k1));
    chain.push_back(mk(k2));
    let mut secrets = RevisionVec::new();
    secrets.insert_new_chain(Right(vec![name]), chain);
    let usk = UserSecretKey {
        id: UserId(id),
        ps: vec![ToyPoint(elt()), ToyPoint(elt())],
        secrets,
        signature: if signed { Some(sig) } else { None },
    };
    let bytes = ser(&usk);
    kani::cover!(signed && hyb, "signed hybridized key");
    kani::cover!(!signed, "unsigned key");
    assert!(bytes.len() == usk.length(), "length() does not announce the serialized length");
    let mut de = Deserializer::new(&bytes);
    let back = UserSecretKey::read(&mut de).unwrap();
    assert!(de.value().is_empty(), "bytes left over after reading back");
    assert!(back.id == usk.id && back.ps == usk.ps, "id / tracing points changed in the round trip");
    assert!(back.signature.is_some() == signed, "presence of the signature changed in the round trip");
    if signed {
        assert!(back.signature.unwrap() == sig);
    }
    assert!(back.secrets.len() == 1);
    let (r, c) = back.secrets.iter().next().unwrap();
    assert!(r.0.len() == 1 && r.0[0] == name && c.len() == 2);
    assert!(*c.front().unwrap() == mk(k1) && *c.back().unwrap() == mk(k2), "secrets / flavour changed in the round trip");
    assert!(back.tracing_level() == 1);
    std::mem::forget(usk);
    std::mem::forget(back);
    std::mem::forget(bytes);
}

#[kani::proof]
#[kani::unwind(4)]
#[kani::stub(zeroize::optimization_barrier, nop_barrier)]
#[kani::stub(alloc::fmt::format, no_format)]
#[kani::stub(<std::io::Error as std::fmt::Display>::fmt, io_error_display_nop)]
#[kani::stub(<std::num::TryFromIntError as std::fmt::Display>::fmt, try_from_int_display_nop)]
fn z_msk_roundtrip() {
    let act: bool = kani::any();
    let hyb: bool = kani::any();
    let with_key: bool = kani::any();
    let (s, t0, k1, k2, u0) = (elt(), elt(), elt(), elt(), elt());
    let mk = |v: u8| {
        if hyb {
            RightSecretKey::Hybridized { sk: ToyScalar::new(v), dk: ToyDk([v, 1]) }
        } else {
            RightSecretKey::Classic { sk: ToyScalar::new(v) }
        }
    };
    let mut tracers = LinkedList::new();
    tracers.push_back((ToyScalar::new(t0), ToyPoint(t0)));
    let mut users = HashSet::new();
    let mut uid = LinkedList::new();
    uid.push_back(ToyScalar::new(u0));
    users.insert(UserId(uid));
    let mut secrets = RevisionMap::new();
    let mut chain = LinkedList::new();
    chain.push_back((act, mk(k1)));
    chain.push_back((true, mk(k2)));
    secrets.map.insert(Right(vec![]), chain);
    let msk = MasterSecretKey {
        tsk: TracingSecretKey { s: ToyScalar::new(s), tracers, users },
        secrets,
        signing_key: if with_key { Some(SymmetricKey::try_from_bytes([9u8; SIGNING_KEY_LENGTH]).unwrap()) } else { None },
        access_structure: AccessStructure::default(),
    };
    let bytes = ser(&msk);
    kani::cover!(!act && with_key, "disabled right, signing key present");
    kani::cover!(!with_key, "no signing key");
    assert!(bytes.len() == msk.length(), "length() does not announce the serialized length");
    let mut de = Deserializer::new(&bytes);
    let back = MasterSecretKey::read(&mut de).unwrap();
    assert!(de.value().is_empty(), "bytes left over after reading back");
    assert!(back.tsk.s == msk.tsk.s && back.tsk.tracers == msk.tsk.tracers, "tracing key changed in the round trip");
    assert!(back.tsk.users.len() == 1 && back.tsk.users == msk.tsk.users, "registered users changed in the round trip");
    assert!(back.signing_key.is_some() == with_key, "presence of the signing key changed in the round trip");
    let c = back.secrets.get(&Right(vec![])).unwrap();
    assert!(c.len() == 2);
    // C06: the activation flag survives serialization
    assert!(c.front().unwrap().0 == act && c.back().unwrap().0, "activation flag changed in the round trip");
    assert!(c.front().unwrap().1 == mk(k1) && c.back().unwrap().1 == mk(k2), "secrets / flavour changed in the round trip");
    std::mem::forget(msk);
    std::mem::forget(back);
    std::mem::forget(bytes);
}

#[kani::proof]
#[kani::unwind(4)]
#[kani::stub(zeroize::optimization_barrier, nop_barrier)]
#[kani::stub(alloc::fmt::format, no_format)]
#[kani::stub(<std::io::Error as std::fmt::Display>::fmt, io_error_display_nop)]
#[kani::stub(<std::num::TryFromIntError as std::fmt::Display>::fmt, try_from_int_display_nop)]
fn z_mpk_roundtrip() {
    let hyb: bool = kani::any();
    let (p0, p1, h0) = (elt(), elt(), elt());
    let mut tpk = LinkedList::new();
    tpk.push_back(ToyPoint(p0));
    tpk.push_back(ToyPoint(p1));
    let mut encryption_keys = HashMap::new();
    let pk = if hyb {
        RightPublicKey::Hybridized { H: ToyPoint(h0), ek: crate::verif_model::toy_kem::ToyEk([h0, 3]) }
    } else {
        RightPublicKey::Classic { H: ToyPoint(h0) }
    };
    encryption_keys.insert(Right(vec![2]), pk.clone());
    let mpk = MasterPublicKey { tpk: TracingPublicKey(tpk), encryption_keys, access_structure: AccessStructure::default() };
    let bytes = ser(&mpk);
    kani::cover!(hyb, "hybridized public key");
    assert!(bytes.len() == mpk.length(), "length() does not announce the serialized length");
    let mut de = Deserializer::new(&bytes);
    let back = MasterPublicKey::read(&mut de).unwrap();
    assert!(de.value().is_empty());
    assert!(back.tpk == mpk.tpk && back.tracing_level() == 1);
    assert!(back.encryption_keys.len() == 1 && *back.encryption_keys.get(&Right(vec![2])).unwrap() == pk, "public key / flavour changed in the round trip");
    std::mem::forget(mpk);
    std::mem::forget(back);
    std::mem::forget(bytes);
}

// ---------------------------------------------------------------- C12 / C13: header framing
#[kani::proof]
#[kani::unwind(5)]
#[kani::stub(zeroize::optimization_barrier, nop_barrier)]
#[kani::stub(alloc::fmt::format, no_format)]
#[kani::stub(<std::io::Error as std::fmt::Display>::fmt, io_error_display_nop)]
#[kani::stub(<std::num::TryFromIntError as std::fmt::Display>::fmt, try_from_int_display_nop)]
fn x_header_frames() {
    use crate::{CleartextHeader, EncryptedHeader};
    let tag: Tag = kani::any();
    let f: [u8; SHARED_SECRET_LENGTH] = kani::any();
    let n: usize = kani::any();
    kani::assume(n <= 3);
    let m: [u8; 3] = kani::any();
    let some: bool = kani::any();
    let md = if some { Some(m[..n].to_vec()) } else { None };
    let hdr = EncryptedHeader {
        encapsulation: XEnc { tag, c: vec![ToyPoint(elt()), ToyPoint(elt())], encapsulations: Encapsulations::CEncs(vec![f]) },
        encrypted_metadata: md.clone(),
    };
    let bytes = ser(&hdr);
    kani::cover!(some && n == 0, "present but empty metadata");
    kani::cover!(!some, "absent metadata");
    assert!(bytes.len() == hdr.length(), "EncryptedHeader::length() does not announce the serialized length");
    let mut de = Deserializer::new(&bytes);
    let back = EncryptedHeader::read(&mut de).unwrap();
    assert!(de.value().is_empty());
    // absent and empty metadata are the same value on the wire
    match (&md, &back.encrypted_metadata) {
        (Some(a), Some(b)) => assert!(!a.is_empty() && a == b),
        (Some(a), None) => assert!(a.is_empty()),
        (None, None) => {}
        (None, Some(_)) => assert!(false, "absent metadata read back as present"),
    }
    assert!(back.encapsulation.tag == tag);
    // cleartext header
    let sec: [u8; SHARED_SECRET_LENGTH] = kani::any();
    let mut s2 = sec;
    let ch = CleartextHeader { secret: Secret::from_unprotected_bytes(&mut s2), metadata: md.clone() };
    let cb = ser(&ch);
    assert!(cb.len() == ch.length(), "CleartextHeader::length() does not announce the serialized length");
    let mut de = Deserializer::new(&cb);
    let cback = CleartextHeader::read(&mut de).unwrap();
    assert!(de.value().is_empty());
    assert!(*cback.secret == sec);
    assert!(cback.metadata.is_some() == (some && n > 0));
    std::mem::forget(hdr);
    std::mem::forget(back);
    std::mem::forget(ch);
    std::mem::forget(cback);
}

// ---------------------------------------------------------------- C14: untrusted bytes
macro_rules! parse_total {
    ($name:ident, $ty:ty, $L:expr, $unwind:expr) => {
        #[kani::proof]
        #[kani::unwind($unwind)]
        #[kani::stub(zeroize::optimization_barrier, nop_barrier)]
        #[kani::stub(alloc::fmt::format, no_format)]
        #[kani::stub(<std::io::Error as std::fmt::Display>::fmt, io_error_display_nop)]
#[kani::stub(<std::num::TryFromIntError as std::fmt::Display>::fmt, try_from_int_display_nop)]
        #[kani::stub(std::vec::Vec::with_capacity, capped_with_capacity)]
        fn $name() {
            let buf: [u8; $L] = kani::any();
            let len: usize = kani::any();
            kani::assume(len <= $L);
            unsafe { INPUT_LEN = len };
            let mut de = Deserializer::new(&buf[..len]);
            let r = <$ty>::read(&mut de);
            kani::cover!(r.is_ok(), "some input parses");
            kani::cover!(r.is_err(), "some input is rejected");
            std::mem::forget(r);
        }
    };
}
parse_total!(u_parse_xenc, XEnc, 22, 24);
parse_total!(u_parse_usk, UserSecretKey, 12, 14);
parse_total!(u_parse_userid, UserId, 6, 8);
parse_total!(u_parse_tpk, TracingPublicKey, 6, 8);

/// U-use: values a parser can return but the API never builds must not crash the public accessors.
#[kani::proof]
#[kani::unwind(4)]
#[kani::stub(zeroize::optimization_barrier, nop_barrier)]
#[kani::stub(alloc::fmt::format, no_format)]
#[kani::stub(<std::io::Error as std::fmt::Display>::fmt, io_error_display_nop)]
#[kani::stub(<std::num::TryFromIntError as std::fmt::Display>::fmt, try_from_int_display_nop)]
fn u_use_degenerate_values() {
    // an encapsulation with zero traps: 16-byte tag, count 0, classic, zero encapsulations
    let mut bytes = [0u8; 19];
    let tag: Tag = kani::any();
    bytes[..16].copy_from_slice(&tag);
    let mut de = Deserializer::new(&bytes);
    let x = XEnc::read(&mut de).unwrap();
    kani::cover!(x.c.is_empty(), "parsed an encapsulation without traps");
    let _ = x.tracing_level();
    let _ = x.count();
    // a user key with an empty id and no right
    let ub = [0u8, 0, 0];
    let mut de = Deserializer::new(&ub);
    let u = UserSecretKey::read(&mut de).unwrap();
    let _ = u.tracing_level();
    // a public key without tracer
    let pb = [0u8, 0, 0, 0];
    let mut de = Deserializer::new(&pb);
    let p = MasterPublicKey::read(&mut de).unwrap();
    let _ = p.tracing_level();
    std::mem::forget(x);
    std::mem::forget(u);
    std::mem::forget(p);
}
