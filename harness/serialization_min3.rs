//! C13, read halves on minimal shapes, third file (injected as `src/core/serialization/verif_k9.rs`, model build): the
//! building blocks of the public key and of the user id. Same method: `read(W(v))` consumes every byte and returns v.
use super::*;
use crate::verif_model::toy_group::{ToyPoint, ToyScalar, P};
use cosmian_crypto_core::bytes_ser_de::{Deserializer, Serializable};

fn elt() -> u8 {
    let v: u8 = kani::any();
    kani::assume((v as u16) < P);
    v
}

macro_rules! stubs {
    (fn $name:ident() $body:block) => {
        #[kani::proof]
        #[kani::unwind(4)]
        #[kani::stub(zeroize::optimization_barrier, nop_barrier)]
        #[kani::stub(alloc::fmt::format, no_format)]
        #[kani::stub(<std::io::Error as std::fmt::Display>::fmt, io_error_display_nop)]
        #[kani::stub(<std::num::TryFromIntError as std::fmt::Display>::fmt, try_from_int_display_nop)]
        fn $name() $body
    };
}

// right public key, both flavours:  W = 0 H   |   W = 1 H ek0 ek1
stubs! {
fn zr_right_public_key_read() {
    let h0 = elt();
    let ek: [u8; 2] = kani::any();
    let wc = [0u8, h0];
    let mut de = Deserializer::new(&wc);
    let c = RightPublicKey::read(&mut de).unwrap();
    assert!(de.value().is_empty(), "bytes left over after reading a classic public key");
    match &c {
        RightPublicKey::Classic { H } => assert!(*H == ToyPoint(h0), "classic public key changed"),
        _ => assert!(false, "flavour of a classic public key changed"),
    }
    let wh = [1u8, h0, ek[0], ek[1]];
    let mut de = Deserializer::new(&wh);
    let h = RightPublicKey::read(&mut de).unwrap();
    kani::cover!(true, "reached");
    assert!(de.value().is_empty(), "bytes left over after reading a hybridized public key");
    match &h {
        RightPublicKey::Hybridized { H, ek: e } => assert!(*H == ToyPoint(h0) && e.0 == ek, "hybridized public key changed"),
        _ => assert!(false, "flavour of a hybridized public key changed"),
    }
    std::mem::forget(c);
    std::mem::forget(h);
}
}

// user id with 3 markers and tracing public key with 3 tracers: order on the wire = order in memory
stubs! {
fn zr_userid_tpk_order_read() {
    let (a0, a1, a2) = (elt(), elt(), elt());
    let w = [3u8, a0, a1, a2];
    let mut de = Deserializer::new(&w);
    let id = UserId::read(&mut de).unwrap();
    assert!(de.value().is_empty(), "bytes left over after reading the id");
    assert!(id.0.len() == 3 && *id.0.front().unwrap() == ToyScalar::new(a0) && *id.0.back().unwrap() == ToyScalar::new(a2), "id markers changed / reordered");
    let mut de = Deserializer::new(&w);
    let tpk = TracingPublicKey::read(&mut de).unwrap();
    kani::cover!(a0 != a2, "distinct first and last element");
    assert!(de.value().is_empty(), "bytes left over after reading the tracing public key");
    assert!(tpk.0.len() == 3 && *tpk.0.front().unwrap() == ToyPoint(a0) && *tpk.0.back().unwrap() == ToyPoint(a2), "tracers changed / reordered");
    assert!(tpk.tracing_level() == 2);
    std::mem::forget(id);
    std::mem::forget(tpk);
}
}
