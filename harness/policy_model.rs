//! Model-tier harnesses for the policy layer (C03, C11) -- injected as
//! `src/abe_policy/access_structure/verif_k.rs`, built with the model feature (association-list maps).
use super::*;
use crate::abe_policy::{AttributeStatus, EncryptionHint};
use crate::data_struct::Dict;

/// C03 E-dict: removal / renaming in a hierarchy keeps the order and the values of the other entries.
#[kani::proof]
#[kani::unwind(5)]
#[kani::stub(alloc::fmt::format, no_format)]
fn e_dict_remove_preserves_order() {
    let k: [u8; 3] = kani::any();
    let v: [u8; 3] = kani::any();
    kani::assume(k[0] != k[1] && k[0] != k[2] && k[1] != k[2]);
    let mut d: Dict<u8, u8> = Dict::new();
    d.insert(k[0], v[0]);
    d.insert(k[1], v[1]);
    d.insert(k[2], v[2]);
    let which: usize = kani::any();
    kani::assume(which < 3);
    let removed = d.remove(&k[which]);
    kani::cover!(which == 1, "middle entry removed");
    assert!(removed == Some(v[which]));
    assert!(d.len() == 2 && !d.contains_key(&k[which]));
    let (i, j) = if which == 0 { (1, 2) } else if which == 1 { (0, 2) } else { (0, 1) };
    // order and values of the others
    {
        let mut it = d.iter();
        let a = it.next().unwrap();
        let b = it.next().unwrap();
        assert!(it.next().is_none());
        assert!(*a.0 == k[i] && *a.1 == v[i] && *b.0 == k[j] && *b.1 == v[j], "removal changed the order or the values of other entries");
    }
    // index invariant: lookups still hit the right entries
    assert!(d.get(&k[i]) == Some(&v[i]) && d.get(&k[j]) == Some(&v[j]), "index map out of sync with the entries after a removal");
    // rename keeps position and value
    let nk: u8 = kani::any();
    kani::assume(nk != k[0] && nk != k[1] && nk != k[2]);
    assert!(d.update_key(&k[i], nk).is_ok());
    {
        let mut it = d.iter();
        let a = it.next().unwrap();
        assert!(*a.0 == nk && *a.1 == v[i], "rename changed the position or the value");
    }
    assert!(d.get(&nk) == Some(&v[i]) && d.get(&k[i]).is_none() && d.get(&k[j]) == Some(&v[j]));
    // renaming onto an existing key, or a missing key, is an error and changes nothing
    assert!(d.update_key(&nk, k[j]).is_err());
    assert!(d.update_key(&k[which], nk).is_err());
    assert!(d.len() == 2);
    std::mem::forget(d);
}

fn qa(n: &str) -> QualifiedAttribute {
    QualifiedAttribute::new("D", n)
}

/// C03 E-ids: after add a, add b, delete one of them (symbolic), add c: the new attribute must not share
/// its id (hence its rights) with the attribute that is still alive.
#[kani::proof]
#[kani::unwind(5)]
#[kani::stub(alloc::fmt::format, no_format)]
fn e_attribute_ids_never_shared() {
    let mut s = AccessStructure::new();
    s.add_anarchy("D".to_string()).unwrap();
    s.add_attribute(qa("a"), EncryptionHint::Classic, None).unwrap();
    s.add_attribute(qa("b"), EncryptionHint::Classic, None).unwrap();
    let ida = s.get_attribute(&qa("a")).unwrap().id;
    let idb = s.get_attribute(&qa("b")).unwrap().id;
    assert!(ida != idb);
    let del_first: bool = kani::any();
    if del_first {
        s.del_attribute(&qa("a")).unwrap();
    } else {
        s.del_attribute(&qa("b")).unwrap();
    }
    kani::cover!(del_first, "an attribute was deleted before the add");
    s.add_attribute(qa("c"), EncryptionHint::Classic, None).unwrap();
    let idc = s.get_attribute(&qa("c")).unwrap().id;
    let live = if del_first { idb } else { ida };
    assert!(idc != live, "a new attribute was given the id (hence the rights) of a live attribute");
    // C09: documented errors
    assert!(s.add_attribute(qa("c"), EncryptionHint::Classic, None).is_err(), "duplicate attribute name accepted");
    assert!(s.del_attribute(&qa("zz")).is_err(), "deleting an unknown attribute must fail");
    assert!(s.add_attribute(QualifiedAttribute::new("X", "a"), EncryptionHint::Classic, None).is_err(), "unknown dimension accepted");
    std::mem::forget(s);
}

/// C03: ...nor with an attribute deleted earlier (its secrets may still be in the master key until the next
/// update, and in user keys until their next refresh).
#[kani::proof]
#[kani::unwind(5)]
#[kani::stub(alloc::fmt::format, no_format)]
fn e_attribute_id_not_reused_after_delete() {
    let mut s = AccessStructure::new();
    s.add_anarchy("D".to_string()).unwrap();
    s.add_attribute(qa("a"), EncryptionHint::Classic, None).unwrap();
    s.add_attribute(qa("b"), EncryptionHint::Classic, None).unwrap();
    let idb = s.get_attribute(&qa("b")).unwrap().id;
    s.del_attribute(&qa("b")).unwrap();
    s.add_attribute(qa("c"), EncryptionHint::Classic, None).unwrap();
    let idc = s.get_attribute(&qa("c")).unwrap().id;
    kani::cover!(true, "reached");
    assert!(idc != idb, "a new attribute reuses the id of a deleted attribute (no persistent id counter)");
    std::mem::forget(s);
}

/// C11 / C06 H-alg: hint disjunction, status conjunction, bool conversions (the algebra `combine` folds with).
#[kani::proof]
#[kani::unwind(2)]
fn h_bitor_tables() {
    let h = |b: bool| if b { EncryptionHint::Hybridized } else { EncryptionHint::Classic };
    let st = |b: bool| if b { AttributeStatus::EncryptDecrypt } else { AttributeStatus::DecryptOnly };
    let (a, b): (bool, bool) = (kani::any(), kani::any());
    kani::cover!(true, "reached");
    // a right is hybridized iff at least one of its attributes is
    assert!(bool::from(h(a) | h(b)) == (a || b));
    assert!(h(a) | h(b) == EncryptionHint::new(a || b));
    // a right is encryptable iff none of its attributes is disabled
    assert!(bool::from(st(a) | st(b)) == (a && b));
    assert!(bool::from(h(a)) == a && bool::from(st(a)) == a);
}

// ------------------------------------------------------------------------------------------------
// Dimension level (one map level less than AccessStructure: tractable)
// ------------------------------------------------------------------------------------------------
fn hierarchy3() -> Dimension {
    // LOW < MED < TOP with ids 0, 1, 2
    let mut d = Dimension::Hierarchy(Dict::new());
    d.add_attribute("L".to_string(), EncryptionHint::Classic, None, 0).unwrap();
    d.add_attribute("M".to_string(), EncryptionHint::Classic, Some("L"), 1).unwrap();
    d.add_attribute("T".to_string(), EncryptionHint::Classic, Some("M"), 2).unwrap();
    d
}
fn ids_of(d: &Dimension) -> [Option<usize>; 3] {
    let mut out = [None, None, None];
    let mut i = 0;
    for a in d.attributes() {
        assert!(i < 3);
        out[i] = Some(a.get_id());
        i += 1;
    }
    out
}

/// C02 S-restrict: restricting a hierarchy to an attribute keeps exactly the attributes at or below it (a lower
/// attribute never gives a higher one); restricting an anarchy keeps exactly the named attribute.
#[kani::proof]
#[kani::unwind(5)]
#[kani::stub(alloc::fmt::format, no_format)]
fn s_restrict_hierarchy_and_anarchy() {
    let d = hierarchy3();
    assert!(ids_of(&d) == [Some(0), Some(1), Some(2)], "hierarchy built in the order L < M < T");
    let which: u8 = kani::any();
    kani::assume(which < 3);
    let name = if which == 0 { "L" } else if which == 1 { "M" } else { "T" };
    let r = d.restrict(name.to_string()).unwrap();
    kani::cover!(which == 1, "restricted to the middle attribute");
    let got = ids_of(&r);
    let expect = if which == 0 { [Some(0), None, None] } else if which == 1 { [Some(0), Some(1), None] } else { [Some(0), Some(1), Some(2)] };
    assert!(got == expect, "restrict must keep exactly the attributes at or below the named one");
    assert!(d.restrict("X".to_string()).is_err(), "restricting to an unknown attribute must fail");
    // anarchy: exactly the named attribute
    let mut a = Dimension::Anarchy(HashMap::new());
    a.add_attribute("F".to_string(), EncryptionHint::Classic, None, 7).unwrap();
    a.add_attribute("H".to_string(), EncryptionHint::Hybridized, None, 8).unwrap();
    let ra = a.restrict("H".to_string()).unwrap();
    assert!(ra.nb_attributes() == 1 && ra.get_attribute(&"H".to_string()).unwrap().get_id() == 8, "an attribute of an unordered dimension must not open a sibling");
    std::mem::forget(ra);
    std::mem::forget(a);
    std::mem::forget(r);
    std::mem::forget(d);
}

/// C03 E-after / C09: a new attribute lands immediately after `after` (first when None), the others keep their
/// order and ids; duplicate names and unknown `after` are errors; removal keeps the order of the rest.
#[kani::proof]
#[kani::unwind(6)]
#[kani::stub(alloc::fmt::format, no_format)]
fn e_hierarchy_add_after_and_errors() {
    let mut d = hierarchy3();
    let which: u8 = kani::any();
    kani::assume(which < 4);
    let after = if which == 0 { None } else if which == 1 { Some("L") } else if which == 2 { Some("M") } else { Some("T") };
    assert!(d.add_attribute("N".to_string(), EncryptionHint::Classic, after, 9).is_ok());
    kani::cover!(which == 2, "inserted in the middle");
    let mut got = [0usize; 4];
    let mut i = 0;
    for a in d.attributes() {
        assert!(i < 4);
        got[i] = a.get_id();
        i += 1;
    }
    assert!(i == 4);
    let expect = if which == 0 { [9, 0, 1, 2] } else if which == 1 { [0, 9, 1, 2] } else if which == 2 { [0, 1, 9, 2] } else { [0, 1, 2, 9] };
    assert!(got == expect, "new attribute not placed right after `after` / order of the others changed");
    // documented errors
    assert!(d.add_attribute("N".to_string(), EncryptionHint::Classic, None, 10).is_err(), "duplicate name accepted");
    assert!(d.add_attribute("Z".to_string(), EncryptionHint::Classic, Some("Q"), 10).is_err(), "unknown `after` accepted");
    assert!(d.remove_attribute(&"Q".to_string()).is_err(), "removing an unknown attribute must fail");
    assert!(d.rename_attribute(&"L".to_string(), "M".to_string()).is_err(), "renaming onto an existing name must fail");
    assert!(d.disable_attribute(&"Q".to_string()).is_err());
    // rename keeps id and position; the renamed attribute is found under its new name only
    assert!(d.rename_attribute(&"M".to_string(), "K".to_string()).is_ok());
    assert!(d.get_attribute(&"K".to_string()).unwrap().get_id() == 1 && d.get_attribute(&"M".to_string()).is_none());
    std::mem::forget(d);
}

// ------------------------------------------------------------------------------------------------
// C15 Q-dnf: to_dnf is equivalent to the policy under every truth assignment
// ------------------------------------------------------------------------------------------------
use crate::abe_policy::AccessPolicy;

fn atom(n: &str) -> AccessPolicy {
    AccessPolicy::Term(QualifiedAttribute::new("D", n))
}
fn truth(q: &QualifiedAttribute, v: [bool; 3]) -> bool {
    match q.name.as_bytes()[0] {
        b'a' => v[0],
        b'b' => v[1],
        _ => v[2],
    }
}
fn eval(p: &AccessPolicy, v: [bool; 3]) -> bool {
    match p {
        AccessPolicy::Broadcast => true,
        AccessPolicy::Term(q) => truth(q, v),
        AccessPolicy::Conjunction(l, r) => eval(l, v) && eval(r, v),
        AccessPolicy::Disjunction(l, r) => eval(l, v) || eval(r, v),
    }
}
fn eval_dnf(dnf: &[Vec<QualifiedAttribute>], v: [bool; 3]) -> bool {
    let mut any = false;
    for clause in dnf {
        let mut all = true;
        for q in clause {
            all = all && truth(q, v);
        }
        any = any || all;
    }
    any
}
macro_rules! dnf_harness {
    ($name:ident, $build:expr) => {
        #[kani::proof]
        #[kani::unwind(6)]
        #[kani::stub(alloc::fmt::format, no_format)]
        fn $name() {
            let p: AccessPolicy = $build;
            let v: [bool; 3] = kani::any();
            let dnf = p.to_dnf();
            kani::cover!(eval(&p, v), "policy satisfied");
            kani::cover!(!eval(&p, v), "policy not satisfied");
            assert!(eval_dnf(&dnf, v) == eval(&p, v), "the DNF is not logically equivalent to the policy");
            std::mem::forget(dnf);
            std::mem::forget(p);
        }
    };
}
dnf_harness!(q_dnf_and_over_or, atom("a") & (atom("b") | atom("c")));
dnf_harness!(q_dnf_or_of_ands, (atom("a") & atom("b")) | (atom("c") & atom("a")));
dnf_harness!(q_dnf_and_of_ors, (atom("a") | atom("b")) & (atom("c") | atom("a")));
