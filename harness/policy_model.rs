//! Model-tier harnesses for the policy layer (C03, C11) -- injected as
//! `src/abe_policy/access_structure/verif_k.rs`, built with the model feature (association-list maps).
use super::*;
use crate::abe_policy::{AttributeStatus, EncryptionHint};
use crate::data_struct::Dict;

/// C03 E-dict: removal / renaming in a hierarchy keeps the order and the values of the other entries.
#[kani::proof]
#[kani::unwind(5)]
#[kani::stub(alloc::fmt::format, no_format)]
fn e_dict_remove_preserves_order() {
    let k: [u8; 3] = kani::any();
    let v: [u8; 3] = kani::any();
    kani::assume(k[0] != k[1] && k[0] != k[2] && k[1] != k[2]);
    let mut d: Dict<u8, u8> = Dict::new();
    d.insert(k[0], v[0]);
    d.insert(k[1], v[1]);
    d.insert(k[2], v[2]);
    let which: usize = kani::any();
    kani::assume(which < 3);
    let removed = d.remove(&k[which]);
    kani::cover!(which == 1, "middle entry removed");
    assert!(removed == Some(v[which]));
    assert!(d.len() == 2 && !d.contains_key(&k[which]));
    let (i, j) = if which == 0 { (1, 2) } else if which == 1 { (0, 2) } else { (0, 1) };
    // order and values of the others
    {
        let mut it = d.iter();
        let a = it.next().unwrap();
        let b = it.next().unwrap();
        assert!(it.next().is_none());
        assert!(*a.0 == k[i] && *a.1 == v[i] && *b.0 == k[j] && *b.1 == v[j], "removal changed the order or the values of other entries");
    }
    // index invariant: lookups still hit the right entries
    assert!(d.get(&k[i]) == Some(&v[i]) && d.get(&k[j]) == Some(&v[j]), "index map out of sync with the entries after a removal");
    // rename keeps position and value
    let nk: u8 = kani::any();
    kani::assume(nk != k[0] && nk != k[1] && nk != k[2]);
    assert!(d.update_key(&k[i], nk).is_ok());
    {
        let mut it = d.iter();
        let a = it.next().unwrap();
        assert!(*a.0 == nk && *a.1 == v[i], "rename changed the position or the value");
    }
    assert!(d.get(&nk) == Some(&v[i]) && d.get(&k[i]).is_none() && d.get(&k[j]) == Some(&v[j]));
    // renaming onto an existing key, or a missing key, is an error and changes nothing
    assert!(d.update_key(&nk, k[j]).is_err());
    assert!(d.update_key(&k[which], nk).is_err());
    assert!(d.len() == 2);
    std::mem::forget(d);
}

fn qa(n: &str) -> QualifiedAttribute {
    QualifiedAttribute::new("D", n)
}

/// C03 E-ids: after add a, add b, delete one of them (symbolic), add c: the new attribute must not share
/// its id (hence its rights) with the attribute that is still alive.
#[kani::proof]
#[kani::unwind(5)]
#[kani::stub(alloc::fmt::format, no_format)]
fn e_attribute_ids_never_shared() {
    let mut s = AccessStructure::new();
    s.add_anarchy("D".to_string()).unwrap();
    s.add_attribute(qa("a"), EncryptionHint::Classic, None).unwrap();
    s.add_attribute(qa("b"), EncryptionHint::Classic, None).unwrap();
    let ida = s.get_attribute(&qa("a")).unwrap().id;
    let idb = s.get_attribute(&qa("b")).unwrap().id;
    assert!(ida != idb);
    let del_first: bool = kani::any();
    if del_first {
        s.del_attribute(&qa("a")).unwrap();
    } else {
        s.del_attribute(&qa("b")).unwrap();
    }
    kani::cover!(del_first, "an attribute was deleted before the add");
    s.add_attribute(qa("c"), EncryptionHint::Classic, None).unwrap();
    let idc = s.get_attribute(&qa("c")).unwrap().id;
    let live = if del_first { idb } else { ida };
    assert!(idc != live, "a new attribute was given the id (hence the rights) of a live attribute");
    // C09: documented errors
    assert!(s.add_attribute(qa("c"), EncryptionHint::Classic, None).is_err(), "duplicate attribute name accepted");
    assert!(s.del_attribute(&qa("zz")).is_err(), "deleting an unknown attribute must fail");
    assert!(s.add_attribute(QualifiedAttribute::new("X", "a"), EncryptionHint::Classic, None).is_err(), "unknown dimension accepted");
    std::mem::forget(s);
}

/// C03: ...nor with an attribute deleted earlier (its secrets may still be in the master key until the next
/// update, and in user keys until their next refresh).
#[kani::proof]
#[kani::unwind(5)]
#[kani::stub(alloc::fmt::format, no_format)]
fn e_attribute_id_not_reused_after_delete() {
    let mut s = AccessStructure::new();
    s.add_anarchy("D".to_string()).unwrap();
    s.add_attribute(qa("a"), EncryptionHint::Classic, None).unwrap();
    s.add_attribute(qa("b"), EncryptionHint::Classic, None).unwrap();
    let idb = s.get_attribute(&qa("b")).unwrap().id;
    s.del_attribute(&qa("b")).unwrap();
    s.add_attribute(qa("c"), EncryptionHint::Classic, None).unwrap();
    let idc = s.get_attribute(&qa("c")).unwrap().id;
    kani::cover!(true, "reached");
    assert!(idc != idb, "a new attribute reuses the id of a deleted attribute (no persistent id counter)");
    std::mem::forget(s);
}

/// C11 / C06 H-alg: hint disjunction, status conjunction, bool conversions (the algebra `combine` folds with).
#[kani::proof]
#[kani::unwind(2)]
fn h_bitor_tables() {
    let h = |b: bool| if b { EncryptionHint::Hybridized } else { EncryptionHint::Classic };
    let st = |b: bool| if b { AttributeStatus::EncryptDecrypt } else { AttributeStatus::DecryptOnly };
    let (a, b): (bool, bool) = (kani::any(), kani::any());
    kani::cover!(true, "reached");
    // a right is hybridized iff at least one of its attributes is
    assert!(bool::from(h(a) | h(b)) == (a || b));
    assert!(h(a) | h(b) == EncryptionHint::new(a || b));
    // a right is encryptable iff none of its attributes is disabled
    assert!(bool::from(st(a) | st(b)) == (a && b));
    assert!(bool::from(h(a)) == a && bool::from(st(a)) == a);
}
