//! Narrow round-trip harnesses for `core::serialization` (C13, the flag/flavour/optional-field half) -- injected as
//! `src/core/serialization/verif_k3.rs`, model build. The wide versions (harness/serialization_model.rs: every field
//! value symbolic) time out; here the *shape* and most field values are concrete so that CBMC constant-propagates the
//! Serializer / Deserializer buffer arithmetic, and exactly the values the wire format encodes in flag positions are
//! solver variables: activation flags, flavour, presence of the optional trailing fields, and the secret values.
use super::*;
use crate::core::{KmacSignature, Tag};
use crate::verif_model::toy_group::{ToyPoint, ToyScalar, P};
use crate::verif_model::toy_kem::{ToyDk, ToyEnc};
use cosmian_crypto_core::bytes_ser_de::{Deserializer, Serializable, Serializer};

fn elt() -> u8 {
    let v: u8 = kani::any();
    kani::assume((v as u16) < P);
    v
}
fn ser<T: Serializable>(t: &T) -> Vec<u8> {
    let mut s = Serializer::with_capacity(128);
    let r = s.write(t);
    assert!(r.is_ok());
    std::mem::forget(r);
    let z = s.finalize();
    let v = z.to_vec();
    std::mem::forget(z);
    v
}

macro_rules! stubs {
    ($(#[$m:meta])* fn $name:ident() $body:block) => {
        #[kani::proof]
        #[kani::unwind(4)]
        #[kani::stub(zeroize::optimization_barrier, nop_barrier)]
        #[kani::stub(alloc::fmt::format, no_format)]
        #[kani::stub(<std::io::Error as std::fmt::Display>::fmt, io_error_display_nop)]
        #[kani::stub(<std::num::TryFromIntError as std::fmt::Display>::fmt, try_from_int_display_nop)]
        $(#[$m])*
        fn $name() $body
    };
}

stubs! {
fn zn_msk_flags_roundtrip() {
    let act0: bool = kani::any();
    let act1: bool = kani::any();
    let hyb: bool = kani::any();
    let (k1, k2) = (elt(), elt());
    let mk = |v: u8| {
        if hyb {
            RightSecretKey::Hybridized { sk: ToyScalar::new(v), dk: ToyDk([v, 1]) }
        } else {
            RightSecretKey::Classic { sk: ToyScalar::new(v) }
        }
    };
    let mut tracers = LinkedList::new();
    tracers.push_back((ToyScalar::new(3), ToyPoint(3)));
    let mut users = HashSet::new();
    let mut uid = LinkedList::new();
    uid.push_back(ToyScalar::new(5));
    users.insert(UserId(uid));
    let mut secrets = RevisionMap::new();
    let mut chain = LinkedList::new();
    chain.push_back((act0, mk(k1)));
    chain.push_back((act1, mk(k2)));
    secrets.map.insert(Right(vec![2]), chain);
    let msk = MasterSecretKey {
        tsk: TracingSecretKey { s: ToyScalar::new(7), tracers, users },
        secrets,
        signing_key: Some(SymmetricKey::try_from_bytes([9u8; SIGNING_KEY_LENGTH]).unwrap()),
        access_structure: AccessStructure::default(),
    };
    let bytes = ser(&msk);
    kani::cover!(!act0 && act1 && hyb, "front disabled, older activated, hybridized");
    kani::cover!(act0 && !act1 && !hyb, "front activated, older disabled, classic");
    assert!(bytes.len() == msk.length(), "length() does not announce the serialized length");
    let mut de = Deserializer::new(&bytes);
    let back = MasterSecretKey::read(&mut de).unwrap();
    assert!(de.value().is_empty(), "bytes left over after reading back");
    assert!(back.tsk.s == msk.tsk.s && back.tsk.tracers == msk.tsk.tracers, "tracing key changed in the round trip");
    assert!(back.tsk.users.len() == 1 && back.tsk.users == msk.tsk.users, "registered users changed in the round trip");
    assert!(back.signing_key.is_some(), "signing key lost in the round trip");
    assert!(back.secrets.len() == 1);
    let c = back.secrets.get(&Right(vec![2])).unwrap();
    assert!(c.len() == 2);
    assert!(c.front().unwrap().0 == act0 && c.back().unwrap().0 == act1, "activation flag changed in the round trip");
    assert!(c.front().unwrap().1 == mk(k1) && c.back().unwrap().1 == mk(k2), "secrets / flavour changed in the round trip");
    std::mem::forget(msk);
    std::mem::forget(back);
    std::mem::forget(bytes);
}
}

stubs! {
fn zn_usk_roundtrip() {
    let hyb: bool = kani::any();
    let signed: bool = kani::any();
    let b: u8 = kani::any();
    let sig: KmacSignature = [b; 32];
    let mk = |v: u8| {
        if hyb {
            RightSecretKey::Hybridized { sk: ToyScalar::new(v), dk: ToyDk([v, 1]) }
        } else {
            RightSecretKey::Classic { sk: ToyScalar::new(v) }
        }
    };
    let (k1, k2) = (elt(), elt());
    let mut id = LinkedList::new();
    id.push_back(ToyScalar::new(4));
    id.push_back(ToyScalar::new(6));
    let mut chain = LinkedList::new();
    chain.push_back(mk(k1));
    chain.push_back(mk(k2));
    let mut secrets = RevisionVec::new();
    secrets.insert_new_chain(Right(vec![2]), chain);
    let usk = UserSecretKey {
        id: UserId(id),
        ps: vec![ToyPoint(3), ToyPoint(8)],
        secrets,
        signature: if signed { Some(sig) } else { None },
    };
    let bytes = ser(&usk);
    kani::cover!(signed && hyb, "signed hybridized key");
    kani::cover!(!signed && !hyb, "unsigned classic key");
    assert!(bytes.len() == usk.length(), "length() does not announce the serialized length");
    let mut de = Deserializer::new(&bytes);
    let back = UserSecretKey::read(&mut de).unwrap();
    assert!(de.value().is_empty(), "bytes left over after reading back");
    assert!(back.id == usk.id && back.ps == usk.ps, "id / tracing points changed in the round trip");
    assert!(back.signature.is_some() == signed, "presence of the signature changed in the round trip");
    if signed {
        assert!(back.signature.unwrap() == sig, "signature changed in the round trip");
    }
    assert!(back.secrets.len() == 1);
    let (r, c) = back.secrets.iter().next().unwrap();
    assert!(r.0.len() == 1 && r.0[0] == 2 && c.len() == 2);
    assert!(*c.front().unwrap() == mk(k1) && *c.back().unwrap() == mk(k2), "secrets / flavour / order changed in the round trip");
    std::mem::forget(usk);
    std::mem::forget(back);
    std::mem::forget(bytes);
}
}

stubs! {
fn zn_mpk_roundtrip() {
    let hyb: bool = kani::any();
    let h0 = elt();
    let mut tpk = LinkedList::new();
    tpk.push_back(ToyPoint(3));
    tpk.push_back(ToyPoint(8));
    let mut encryption_keys = HashMap::new();
    let pk = if hyb {
        RightPublicKey::Hybridized { H: ToyPoint(h0), ek: crate::verif_model::toy_kem::ToyEk([h0, 3]) }
    } else {
        RightPublicKey::Classic { H: ToyPoint(h0) }
    };
    encryption_keys.insert(Right(vec![2]), pk.clone());
    let mpk = MasterPublicKey { tpk: TracingPublicKey(tpk), encryption_keys, access_structure: AccessStructure::default() };
    let bytes = ser(&mpk);
    kani::cover!(hyb, "hybridized public key");
    kani::cover!(!hyb, "classic public key");
    assert!(bytes.len() == mpk.length(), "length() does not announce the serialized length");
    let mut de = Deserializer::new(&bytes);
    let back = MasterPublicKey::read(&mut de).unwrap();
    assert!(de.value().is_empty(), "bytes left over after reading back");
    assert!(back.tpk == mpk.tpk && back.tracing_level() == 1, "tracing public key changed in the round trip");
    assert!(back.encryption_keys.len() == 1 && *back.encryption_keys.get(&Right(vec![2])).unwrap() == pk, "public key / flavour changed in the round trip");
    std::mem::forget(mpk);
    std::mem::forget(back);
    std::mem::forget(bytes);
}
}

stubs! {
fn zn_xenc_roundtrip() {
    let hyb: bool = kani::any();
    let (t, g) = (kani::any::<u8>(), kani::any::<u8>());
    let tag: Tag = [t; 16];
    let f: [u8; SHARED_SECRET_LENGTH] = [g; SHARED_SECRET_LENGTH];
    let e: [u8; 4] = kani::any();
    let (c0, c1) = (elt(), elt());
    let x = XEnc {
        tag,
        c: vec![ToyPoint(c0), ToyPoint(c1)],
        encapsulations: if hyb {
            Encapsulations::HEncs(vec![(ToyEnc(e), f)])
        } else {
            Encapsulations::CEncs(vec![f])
        },
    };
    let bytes = ser(&x);
    kani::cover!(hyb, "hybridized encapsulation");
    kani::cover!(!hyb, "classic encapsulation");
    assert!(bytes.len() == x.length(), "length() does not announce the serialized length");
    let mut de = Deserializer::new(&bytes);
    let y = XEnc::read(&mut de).unwrap();
    assert!(de.value().is_empty(), "bytes left over after reading back");
    assert!(y.tag == x.tag && y.c.len() == 2 && y.c[0] == ToyPoint(c0) && y.c[1] == ToyPoint(c1), "tag / traps changed in the round trip");
    match (&x.encapsulations, &y.encapsulations) {
        (Encapsulations::HEncs(a), Encapsulations::HEncs(b)) => assert!(a.len() == 1 && b.len() == 1 && a[0].0 == b[0].0 && a[0].1 == b[0].1),
        (Encapsulations::CEncs(a), Encapsulations::CEncs(b)) => assert!(a.len() == 1 && b.len() == 1 && a[0] == b[0]),
        _ => assert!(false, "flavour of the encapsulation changed in the round trip"),
    }
    assert!(y.tracing_level() == 1 && y.count() == 1);
    std::mem::forget(x);
    std::mem::forget(y);
    std::mem::forget(bytes);
}
}
