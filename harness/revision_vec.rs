//! Kani harnesses for `RevisionVec` (injected as `src/data_struct/revision_vec/verif_k.rs`).
//! Serves C04 (R-iter), C01 (L-iter), C14 (U-use: termination on degenerate shapes).
//!
//! Instantiation: `RevisionVec<u8, u8>`; element and key values symbolic, shape
//! (number and lengths of chains) concrete per harness (symbolic lengths blow up,
//! see DESIGN §1), so the shapes listed here ARE the bound.
use super::*;
use std::collections::LinkedList;

fn chain(vals: &[u8]) -> LinkedList<u8> {
    let mut l = LinkedList::new();
    for v in vals {
        l.push_back(*v);
    }
    l
}

/// Drains `revisions()` for at most `max` calls. For every call `d` asserts
/// that the yielded revision holds exactly the d-th element of every chain
/// that has one (same key), and that the iterator ends right after the
/// longest chain is exhausted.
fn drain_and_check(rv: &RevisionVec<u8, u8>, keys: &[u8], vals: &[&[u8]], longest: usize) {
    let mut it = rv.revisions();
    let mut d = 0;
    while d < longest {
        let rev = it.next();
        assert!(rev.is_some(), "revisions() ended before the longest chain was exhausted");
        let rev = rev.unwrap();
        let mut expected = 0;
        let mut c = 0;
        while c < vals.len() {
            if d < vals[c].len() {
                // the d-th secret of chain c must be offered at depth d
                assert!(expected < rev.len(), "a stored element is never yielded");
                assert!(*rev[expected].0 == keys[c] && *rev[expected].1 == vals[c][d]);
                expected += 1;
            }
            c += 1;
        }
        assert!(rev.len() == expected, "revision yields more than the stored elements");
        std::mem::forget(rev);
        d += 1;
    }
    kani::cover!(d == longest, "all depths visited");
    let end = it.next();
    assert!(end.is_none(), "revisions() does not terminate after the longest chain");
    std::mem::forget(end);
    std::mem::forget(it);
}

macro_rules! shape_harness {
    ($name:ident, $unwind:literal, $longest:literal, [$($len:literal),*]) => {
        #[kani::proof]
        #[kani::unwind($unwind)]
        fn $name() {
            let mut rv: RevisionVec<u8, u8> = RevisionVec::new();
            let mut keys: Vec<u8> = Vec::new();
            let mut all: Vec<Vec<u8>> = Vec::new();
            $(
                {
                    let k: u8 = kani::any();
                    let raw: [u8; $len] = kani::any();
                    keys.push(k);
                    all.push(raw.to_vec());
                    rv.insert_new_chain(k, chain(&raw));
                }
            )*
            let views: Vec<&[u8]> = all.iter().map(|v| v.as_slice()).collect();
            drain_and_check(&rv, &keys, &views, $longest);
            std::mem::forget(views);
            std::mem::forget(all);
            std::mem::forget(keys);
            std::mem::forget(rv);
        }
    };
}

// quick tier
shape_harness!(riter_shape_1, 4, 1, [1]);
shape_harness!(riter_shape_2, 4, 2, [2]);
shape_harness!(riter_shape_1_1, 4, 1, [1, 1]);
shape_harness!(riter_shape_2_1, 4, 2, [2, 1]);
shape_harness!(riter_shape_1_2, 4, 2, [1, 2]);
shape_harness!(riter_shape_2_2, 4, 2, [2, 2]);
// thorough tier
shape_harness!(riter_shape_3_1, 5, 3, [3, 1]);
shape_harness!(riter_shape_1_3, 5, 3, [1, 3]);
shape_harness!(riter_shape_2_3, 5, 3, [2, 3]);
shape_harness!(riter_shape_1_2_1, 5, 2, [1, 2, 1]);
shape_harness!(riter_shape_2_1_2, 5, 2, [2, 1, 2]);
shape_harness!(riter_shape_1_1_2, 5, 2, [1, 1, 2]);

/// C14 U-use: a key with zero rights (a parser can return it, the API never
/// builds it): the revision iterator must end, not yield empty revisions forever.
#[kani::proof]
#[kani::unwind(3)]
fn riter_zero_chains_terminates() {
    let rv: RevisionVec<u8, u8> = RevisionVec::new();
    let mut it = rv.revisions();
    let first = it.next();
    kani::cover!(true, "reached");
    assert!(first.is_none(), "revisions() on zero chains yields a revision (endless loop in decaps)");
    std::mem::forget(first);
    std::mem::forget(it);
    std::mem::forget(rv);
}
