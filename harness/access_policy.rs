//! Kani harnesses for the policy parser (C15) -- injected as `src/abe_policy/access_policy/verif_k.rs`,
//! real build (no model needed). Inputs: every valid UTF-8 string up to the stated byte length.
use super::*;

fn utf8<const N: usize>(buf: &[u8; N], len: usize) -> Option<&str> {
    std::str::from_utf8(&buf[..len]).ok()
}

/// Q-paren: the offset returned by `find_matching_closing_parenthesis`, used as `parse` uses it (byte
/// slicing `&e[1..1 + off]` and `&e[2 + off..]` with `s = &e[1..]`), must be a byte offset of `s` that lies
/// on a char boundary and points at the matching ')'.
#[kani::proof]
#[kani::unwind(6)]
#[kani::stub(alloc::fmt::format, no_format)]
fn q_paren_offset_is_byte_offset() {
    let buf: [u8; 4] = kani::any();
    let len: usize = kani::any();
    kani::assume(len <= 4);
    if let Some(s) = utf8(&buf, len) {
        let r = AccessPolicy::find_matching_closing_parenthesis(s);
        if let Ok(off) = r {
            kani::cover!(off > 0 && !s.is_ascii(), "closing parenthesis after a multi-byte character");
            assert!(off < s.len(), "offset past the end of the string");
            assert!(s.is_char_boundary(off), "offset is not on a char boundary (char index used as byte offset)");
            assert!(s.as_bytes()[off] == b')', "offset does not point at the closing parenthesis");
            // and it is the FIRST unmatched ')' : everything before is balanced
            let mut depth: i32 = 0;
            let mut i = 0;
            while i < off {
                if s.as_bytes()[i] == b'(' {
                    depth += 1;
                }
                if s.as_bytes()[i] == b')' {
                    depth -= 1;
                }
                assert!(depth >= 0);
                i += 1;
            }
            assert!(depth == 0, "returned parenthesis does not match the opening one");
        } else {
            kani::cover!(true, "no closing parenthesis");
        }
        std::mem::forget(r);
    }
}

/// Q-attr: `QualifiedAttribute::try_from` never panics; Ok iff there is exactly one "::" with non-empty
/// sides; the names are the trimmed sides.
#[kani::proof]
#[kani::unwind(8)]
#[kani::stub(alloc::fmt::format, no_format)]
fn q_attr_split_and_trim() {
    let buf: [u8; 5] = kani::any();
    let len: usize = kani::any();
    kani::assume(len <= 5);
    if let Some(s) = utf8(&buf, len) {
        let r = QualifiedAttribute::try_from(s);
        // reference: position of the first "::"
        let b = s.as_bytes();
        let mut first: Option<usize> = None;
        let mut count = 0;
        let mut i = 0;
        while i + 1 < b.len() {
            if b[i] == b':' && b[i + 1] == b':' {
                if first.is_none() {
                    first = Some(i);
                }
                count += 1;
            }
            i += 1;
        }
        match &r {
            Ok(qa) => {
                kani::cover!(true, "accepted attribute");
                assert!(first.is_some());
                let k = first.unwrap();
                assert!(k > 0 && k + 2 < b.len(), "accepted an attribute with an empty side");
                assert!(qa.dimension.as_str() == s[..k].trim());
                assert!(qa.name.as_str() == s[k + 2..].trim());
                assert!(!s[k + 2..].contains("::"), "accepted two separators");
            }
            Err(_) => {
                kani::cover!(count == 0, "rejected: no separator");
                if let Some(k) = first {
                    assert!(k == 0 || k + 2 == b.len() || s[k + 2..].contains("::"), "rejected a well-formed attribute");
                }
            }
        }
        std::mem::forget(r);
    }
}

/// Q-total: `AccessPolicy::parse` returns (Ok or Err) on every string of <= 3 bytes: no panic, no slicing
/// inside a multi-byte character.
#[kani::proof]
#[kani::unwind(5)]
#[kani::stub(alloc::fmt::format, no_format)]
fn q_parse_total_3() {
    let buf: [u8; 3] = kani::any();
    let len: usize = kani::any();
    kani::assume(len <= 3);
    if let Some(s) = utf8(&buf, len) {
        let r = AccessPolicy::parse(s);
        kani::cover!(r.is_err(), "rejected");
        kani::cover!(r.is_ok(), "accepted");
        std::mem::forget(r);
    }
}
