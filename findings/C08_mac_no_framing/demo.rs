// Native demonstration (public API, real crypto) of the C08 known finding: the KMAC input of a user key is the
// plain concatenation of markers, right names and secrets, without length framing. A chain [s1, s2] of right r
// can be re-arranged into r:[s1] followed by a new right with the EMPTY name holding [s2]: the MAC input is
// byte-for-byte the same, so the master key accepts the re-arranged key for refresh although it never issued
// this arrangement (C08: "secrets moved between rights or chains ... is rejected").
// This test asserts the REQUIRED behaviour (rejection), so it FAILS on the current tree: known finding.
use cosmian_crypto_core::bytes_ser_de::Serializable;

use crate::{api::Covercrypt, test_utils::cc_keygen, AccessPolicy, UserSecretKey};

fn leb(bytes: &[u8], pos: &mut usize) -> u64 {
    let (mut v, mut shift) = (0u64, 0);
    loop {
        let b = bytes[*pos];
        *pos += 1;
        v |= ((b & 0x7f) as u64) << shift;
        if b & 0x80 == 0 {
            return v;
        }
        shift += 7;
    }
}
fn secret_len(bytes: &[u8], pos: usize) -> usize {
    if bytes[pos] == 1 { 1 + 32 + 1632 } else { 1 + 32 }
}

#[test]
fn c08_rearranged_key_must_be_rejected() {
    let cc = Covercrypt::default();
    let (mut msk, _mpk) = cc_keygen(&cc, false).unwrap();
    let ap = AccessPolicy::parse("DPT::FIN && SEC::LOW").unwrap();
    let mut usk = cc.generate_user_secret_key(&mut msk, &ap).unwrap();
    let _ = cc.rekey(&mut msk, &ap).unwrap();
    cc.refresh_usk(&mut msk, &mut usk, true).unwrap(); // rotated rights now have chains of two secrets
    let bytes = usk.serialize().unwrap().to_vec();

    // walk the serialized key: id, tracing points, rights
    let mut pos = 0;
    let n_markers = leb(&bytes, &mut pos) as usize;
    pos += 32 * n_markers;
    let n_points = leb(&bytes, &mut pos) as usize;
    pos += 32 * n_points;
    let rights_count_pos = pos;
    let n_rights = leb(&bytes, &mut pos) as usize;
    assert!(n_rights < 127);
    let mut forged: Option<Vec<u8>> = None;
    for _ in 0..n_rights {
        let name_len = leb(&bytes, &mut pos) as usize;
        pos += name_len;
        let chain_len_pos = pos;
        let chain_len = leb(&bytes, &mut pos) as usize;
        let first = pos;
        let mut p = pos;
        for _ in 0..chain_len {
            p += secret_len(&bytes, p);
        }
        if forged.is_none() && chain_len == 2 {
            let second = first + secret_len(&bytes, first);
            let mut out = bytes[..rights_count_pos].to_vec();
            out.push((n_rights + 1) as u8); // one more right
            out.extend_from_slice(&bytes[rights_count_pos + 1..chain_len_pos]);
            out.push(1); // this right keeps only its first secret
            out.extend_from_slice(&bytes[first..second]);
            out.push(0); // new right: empty name ...
            out.push(1); // ... holding the second secret
            out.extend_from_slice(&bytes[second..]);
            forged = Some(out);
        }
        pos = p;
    }
    let forged = forged.expect("a right with a chain of two secrets");
    let mut forged_usk = UserSecretKey::deserialize(&forged).expect("the re-arranged key parses");
    assert_ne!(forged_usk, usk, "the arrangement differs from the issued one");
    assert!(
        cc.refresh_usk(&mut msk, &mut forged_usk, true).is_err(),
        "a key whose secrets were moved to another right passed the integrity check"
    );
}
