// Native demonstration (public API, real crypto) of the C04/C14 defect in
// RevisionIterator::next: it stopped at the shortest chain of a user key, so
// after rotating only a subset of a key's rights and refreshing with
// keep_old_secrets = true, the key could no longer open encapsulations made
// under the older secret of a rotated right.
// Inject as a test module of the crate (needs crate-private test_utils).
use crate::{api::Covercrypt, test_utils::cc_keygen, traits::KemAc, AccessPolicy};

#[test]
fn c04_partial_rekey_keep_old_secrets() {
    let cc = Covercrypt::default();
    let (mut msk, mpk0) = cc_keygen(&cc, false).unwrap();
    let mut usk = cc
        .generate_user_secret_key(&mut msk, &AccessPolicy::parse("DPT::FIN || DPT::MKG").unwrap())
        .unwrap();
    let (ss_old, enc_old) = cc.encaps(&mpk0, &AccessPolicy::parse("DPT::FIN").unwrap()).unwrap();
    assert_eq!(cc.decaps(&usk, &enc_old).unwrap(), Some(ss_old.clone()));
    // rotate only the rights below DPT::FIN: the key's DPT::MKG chains keep length 1
    let mpk1 = cc.rekey(&mut msk, &AccessPolicy::parse("DPT::FIN").unwrap()).unwrap();
    cc.refresh_usk(&mut msk, &mut usk, true).unwrap();
    let (ss_new, enc_new) = cc.encaps(&mpk1, &AccessPolicy::parse("DPT::FIN").unwrap()).unwrap();
    assert_eq!(cc.decaps(&usk, &enc_new).unwrap(), Some(ss_new));
    // keep_old_secrets = true: the old encapsulation must still open
    assert_eq!(cc.decaps(&usk, &enc_old).unwrap(), Some(ss_old));
}
