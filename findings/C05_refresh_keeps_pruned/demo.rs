// Native demonstration (public API, real crypto) of the C05 defect in refresh_coordinate_keys: when the newest
// secret held by a user key had been pruned from the master key, the refresh (keep_old_secrets = true) pushed
// the whole master chain and then the user's stale first secret, so the "refreshed" key kept opening
// encapsulations made under a pruned secret.
use crate::{api::Covercrypt, test_utils::cc_keygen, traits::KemAc, AccessPolicy};

#[test]
fn c05_pruned_secret_leaves_refreshed_key() {
    let cc = Covercrypt::default();
    let (mut msk, mpk0) = cc_keygen(&cc, false).unwrap();
    let ap = AccessPolicy::parse("DPT::FIN && SEC::TOP").unwrap();
    let mut usk = cc.generate_user_secret_key(&mut msk, &ap).unwrap();
    let (ss_old, enc_old) = cc.encaps(&mpk0, &ap).unwrap();
    assert_eq!(cc.decaps(&usk, &enc_old).unwrap(), Some(ss_old));
    // rotate, then prune: the secret the user holds is gone from the master key
    let _ = cc.rekey(&mut msk, &ap).unwrap();
    let mpk2 = cc.prune_master_secret_key(&mut msk, &ap).unwrap();
    cc.refresh_usk(&mut msk, &mut usk, true).unwrap();
    let (ss_new, enc_new) = cc.encaps(&mpk2, &ap).unwrap();
    assert_eq!(cc.decaps(&usk, &enc_new).unwrap(), Some(ss_new), "refreshed key follows the master key");
    assert_eq!(cc.decaps(&usk, &enc_old).unwrap(), None, "refreshed key still uses a pruned secret");
}
