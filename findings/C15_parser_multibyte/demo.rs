// Native demonstration of the C15 defects in AccessPolicy::parse on non-ASCII text:
// (1) find_matching_closing_parenthesis returned a char index that parse used as a byte offset;
// (2) the first-character dispatch `&e[..1]` and the operator checks `&e[1..2]` sliced inside multi-byte chars
//     and panicked.
use crate::{abe_policy::QualifiedAttribute, AccessPolicy};

#[test]
fn c15_parser_handles_multibyte_characters() {
    // (1) multi-byte characters inside parentheses
    let ap = AccessPolicy::parse("(Dé::é) && S::T").expect("valid policy");
    assert_eq!(
        ap.to_dnf(),
        vec![vec![QualifiedAttribute::new("Dé", "é"), QualifiedAttribute::new("S", "T")]]
    );
    // (2) multi-byte first character, and multi-byte character right after an operator char: no panic
    assert_eq!(AccessPolicy::parse("é::a").unwrap().to_dnf(), vec![vec![QualifiedAttribute::new("é", "a")]]);
    assert!(AccessPolicy::parse("A::B |é").is_err());
    assert!(AccessPolicy::parse("A::B &é").is_err());
    assert!(AccessPolicy::parse("é").is_err());
}
