// Native demonstration (public API, real crypto) of the C10 defect in rekey: the rights were rotated one by
// one, so a rekey failing on a right the master key does not hold (attribute added to the structure, master
// key not yet updated) returned Err after having rotated some of the other rights.
use cosmian_crypto_core::bytes_ser_de::Serializable;

use crate::{abe_policy::{EncryptionHint, QualifiedAttribute}, api::Covercrypt, test_utils::cc_keygen, AccessPolicy};

#[test]
fn c10_failed_rekey_leaves_msk_untouched() {
    let cc = Covercrypt::default();
    // the set of rights is walked in hash order: repeat so that "unknown right first" luck cannot hide the defect
    for _ in 0..20 {
        let (mut msk, _mpk) = cc_keygen(&cc, false).unwrap();
        msk.access_structure
            .add_attribute(QualifiedAttribute::new("DPT", "NEW"), EncryptionHint::Classic, None)
            .unwrap();
        let before = msk.serialize().unwrap();
        let res = cc.rekey(&mut msk, &AccessPolicy::parse("DPT::NEW").unwrap());
        assert!(res.is_err(), "rights of DPT::NEW are not in the master key yet");
        let after = msk.serialize().unwrap();
        assert_eq!(before.len(), after.len(), "failed rekey changed the master key (partial rotation)");
    }
}
