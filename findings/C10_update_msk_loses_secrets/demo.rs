// Native demonstration (public API, real crypto) of the C10 defect in update_msk: the secrets were moved out of
// the master key (`take`) before the fallible loop, so an update failing because a right would be born
// decrypt-only (attribute added then disabled before the first update) returned Err and left the master key
// with NO secret at all.
use cosmian_crypto_core::bytes_ser_de::Serializable;

use crate::{abe_policy::{EncryptionHint, QualifiedAttribute}, api::Covercrypt, test_utils::cc_keygen};

#[test]
fn c10_failed_update_keeps_master_secrets() {
    let cc = Covercrypt::default();
    let (mut msk, _mpk) = cc_keygen(&cc, false).unwrap();
    let attr = QualifiedAttribute::new("DPT", "NEW");
    msk.access_structure.add_attribute(attr.clone(), EncryptionHint::Classic, None).unwrap();
    msk.access_structure.disable_attribute(&attr).unwrap();
    let before = msk.serialize().unwrap();
    assert!(cc.update_msk(&mut msk).is_err(), "a right cannot be born decrypt-only");
    let after = msk.serialize().unwrap();
    assert_eq!(&*before, &*after, "failed update_msk modified (emptied) the master key");
}
