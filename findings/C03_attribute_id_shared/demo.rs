// Native demonstration (public API, real crypto) of a C03 defect read in AccessStructure::add_attribute: the id of
// a new attribute is the current NUMBER of attributes, so after a deletion the next attribute added gets the id
// (hence the rights and the secrets) of a LIVE attribute: add X, add Y, delete X, add Z => Z shares Y's id.
// A user entitled to DPT::Y only then opens ciphertexts for DPT::Z.
// (Found by reading; the solver harness e_attribute_ids_never_shared times out. Not repaired.)
use crate::{abe_policy::{EncryptionHint, QualifiedAttribute}, api::Covercrypt, traits::KemAc, AccessPolicy};

#[test]
fn c03_new_attribute_must_not_share_a_live_id() {
    let cc = Covercrypt::default();
    let (mut msk, _) = cc.setup().unwrap();
    msk.access_structure.add_anarchy("DPT".to_string()).unwrap();
    for n in ["X", "Y"] {
        msk.access_structure.add_attribute(QualifiedAttribute::new("DPT", n), EncryptionHint::Classic, None).unwrap();
    }
    let _ = cc.update_msk(&mut msk).unwrap();
    let usk_y = cc.generate_user_secret_key(&mut msk, &AccessPolicy::parse("DPT::Y").unwrap()).unwrap();
    msk.access_structure.del_attribute(&QualifiedAttribute::new("DPT", "X")).unwrap();
    msk.access_structure.add_attribute(QualifiedAttribute::new("DPT", "Z"), EncryptionHint::Classic, None).unwrap();
    let mpk = cc.update_msk(&mut msk).unwrap();
    let (_, enc_z) = cc.encaps(&mpk, &AccessPolicy::parse("DPT::Z").unwrap()).unwrap();
    assert!(cc.decaps(&usk_y, &enc_z).unwrap().is_none(), "a key for DPT::Y opens a ciphertext for the new attribute DPT::Z");
}
