// Native demonstration of the C14 defect in the tracing_level() accessors: `len() - 1` on values only a parser can
// build (an encapsulation without traps, a user key with an empty id, a public key without tracer) panics in
// debug builds (and wraps to usize::MAX in release builds).
use cosmian_crypto_core::bytes_ser_de::Serializable;

use crate::{MasterPublicKey, UserSecretKey, XEnc};

#[test]
fn c14_accessors_on_degenerate_parsed_values() {
    // 16-byte tag, 0 traps, classic, 0 encapsulations
    let mut bytes = vec![0u8; 16];
    bytes.extend_from_slice(&[0, 0, 0]);
    let enc = XEnc::deserialize(&bytes).expect("parses");
    assert_eq!(enc.tracing_level(), 0);
    assert_eq!(enc.count(), 0);
    // empty id, no tracing point, no right
    let usk = UserSecretKey::deserialize(&[0, 0, 0]).expect("parses");
    assert_eq!(usk.tracing_level(), 0);
    // no tracer, no right, empty V1 structure
    let mpk = MasterPublicKey::deserialize(&[0, 0, 0, 0]).expect("parses");
    assert_eq!(mpk.tracing_level(), 0);
}
