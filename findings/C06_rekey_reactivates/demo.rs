// Native demonstration (public API, real crypto) of the C06 defect: rekey inserted `(true, new secret)`
// whatever the activation flag of the right, so re-keying a policy that covers a disabled attribute published
// an encryption key for it again.
use crate::{abe_policy::QualifiedAttribute, api::Covercrypt, test_utils::cc_keygen, traits::KemAc, AccessPolicy};

#[test]
fn c06_rekey_must_not_reenable_disabled_attribute() {
    let cc = Covercrypt::default();
    let (mut msk, _mpk) = cc_keygen(&cc, false).unwrap();
    msk.access_structure.disable_attribute(&QualifiedAttribute::new("DPT", "FIN")).unwrap();
    let mpk = cc.update_msk(&mut msk).unwrap();
    let ap = AccessPolicy::parse("DPT::FIN && SEC::TOP").unwrap();
    assert!(cc.encaps(&mpk, &ap).is_err(), "disabled right must not be encryptable");
    // any later rekey covering the right
    let mpk = cc.rekey(&mut msk, &AccessPolicy::parse("DPT::FIN").unwrap()).unwrap();
    assert!(cc.encaps(&mpk, &ap).is_err(), "rekey re-enabled a disabled attribute");
    // and it stays disabled after the next update as well
    let mpk = cc.update_msk(&mut msk).unwrap();
    assert!(cc.encaps(&mpk, &ap).is_err());
}
