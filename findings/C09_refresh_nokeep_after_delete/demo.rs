// Native demonstration (public API, real crypto) of the C09 defect in refresh: without keep_old_secrets the new
// secrets were fetched with get_latest_right_sk for every right of the key, which errors on a right the master
// key no longer has: after deleting an attribute (and updating the master key) issued keys holding it could not
// be refreshed with keep_old_secrets = false any more.
use crate::{abe_policy::QualifiedAttribute, api::Covercrypt, test_utils::cc_keygen, traits::KemAc, AccessPolicy};

#[test]
fn c09_refresh_without_keep_after_attribute_deletion() {
    let cc = Covercrypt::default();
    let (mut msk, _mpk) = cc_keygen(&cc, false).unwrap();
    let mut usk = cc
        .generate_user_secret_key(&mut msk, &AccessPolicy::parse("SEC::TOP && (DPT::FIN || DPT::HR)").unwrap())
        .unwrap();
    msk.access_structure.del_attribute(&QualifiedAttribute::new("DPT", "FIN")).unwrap();
    let mpk = cc.update_msk(&mut msk).unwrap();
    cc.refresh_usk(&mut msk, &mut usk, false).expect("refresh of an issued key must succeed");
    let (ss, enc) = cc.encaps(&mpk, &AccessPolicy::parse("SEC::TOP && DPT::HR").unwrap()).unwrap();
    assert_eq!(cc.decaps(&usk, &enc).unwrap(), Some(ss), "the key keeps its other rights");
}
