// Native demonstration (public API, real crypto) of the C10 defect in refresh: the id (and the secrets) were
// moved out of the user key before fallible steps. A key presented to a master key that has the right signing
// key but does not know its id (an older serialized copy of the master key) passes the signature check, fails on
// "unknown user" and comes back EMPTY.
use cosmian_crypto_core::bytes_ser_de::Serializable;

use crate::{api::Covercrypt, test_utils::cc_keygen, AccessPolicy, MasterSecretKey};

#[test]
fn c10_failed_refresh_leaves_usk_untouched() {
    let cc = Covercrypt::default();
    let (mut msk, _mpk) = cc_keygen(&cc, false).unwrap();
    let mut old_msk = MasterSecretKey::deserialize(&msk.serialize().unwrap()).unwrap();
    let mut usk = cc
        .generate_user_secret_key(&mut msk, &AccessPolicy::parse("DPT::FIN && SEC::TOP").unwrap())
        .unwrap();
    let before = usk.serialize().unwrap();
    let msk_before = old_msk.serialize().unwrap();
    for keep in [true, false] {
        assert!(cc.refresh_usk(&mut old_msk, &mut usk, keep).is_err(), "id unknown to this master key");
        assert_eq!(&*before, &*usk.serialize().unwrap(), "failed refresh modified (emptied) the user key");
        assert_eq!(&*msk_before, &*old_msk.serialize().unwrap(), "failed refresh modified the master key");
    }
}
