#!/bin/bash
# usage: prof.sh <goto.out> <global unwind> <timeout> [extra unwindset regex:n ...]
F=$1; U=$2; T=$3; shift 3
UW="memcmp.0:${MEMCMP:-70}"
LOOPS=$(goto-instrument --show-loops $F 2>/dev/null | python3 -c "
import re,sys
t=sys.stdin.read()
for lid,where in re.findall(r'Loop (\S+):\n\s+(.*)',t):
    m=re.search(r'function (.*)$',where)
    print(lid+'\t'+(m.group(1) if m else where))
")
for spec in "$@"; do
  rx=${spec%:*}; n=${spec##*:}
  ids=$(echo "$LOOPS" | grep -E "$rx" | cut -f1)
  for i in $ids; do UW="$UW,$i:$n"; done
done
( /usr/bin/time -v timeout $T cbmc $F --no-malloc-may-fail --no-undefined-shift-check --no-signed-overflow-check --nan-check --no-self-loops-to-assumptions --no-pointer-primitive-check --unwind $U --unwinding-assertions --object-bits 16 --slice-formula --sat-solver cadical --unwindset "$UW" --verbosity 9 > prof.log 2>&1 )
echo "rc=$?"
grep -c "Unwinding loop" prof.log
grep -E "^(size of program|Generated|Passing problem|Running|Runtime|[0-9]+ variables|SAT checker|VERIFICATION|Solving)" prof.log | head -20
grep "Maximum resident" prof.log
