#!/bin/bash
# mk.sh <prop> <harness>: build goto binary only (kill cbmc quickly), print path of cut binary
cd /verif && VERIF_MAX_REPLAYS=0 timeout 400 python3 - "$@" <<'PY'
import sys,os,subprocess,glob
sys.path.insert(0,'/verif/lib')
import runner, registry
prop,h=sys.argv[1],sys.argv[2]
work=os.path.join(runner.SCRATCH,'work-'+prop)
runner.prepare_work(work, registry.sites_for([h]))
build=registry.HARNESSES[h].get('build','real')
cmd=["cargo","kani","--target-dir",os.path.join(runner.SCRATCH,'tgt-'+build),"-Z","unstable-options","-Z","stubbing","--harness-timeout","25s","--exact","--harness",registry.harness_id(h),"--output-format","terse"]+registry.BUILDS[build]["cargo_args"]+["--cbmc-args"]+registry.CBMC_ARGS
p=subprocess.run(cmd,cwd=work,env=runner.base_env('/var/tmp/verif-cc'),stdout=subprocess.PIPE,stderr=subprocess.STDOUT,text=True)
fs=sorted(glob.glob(os.path.join(runner.SCRATCH,'tgt-'+build,'kani/x86_64-unknown-linux-gnu/debug/build/cosmian_cover_crypt/*/out/*%s*.out'%h)),key=os.path.getmtime)
if not fs: print(p.stdout[-3000:])
print(fs[-1] if fs else 'NONE')
PY
