#!/bin/bash
# sym.sh <harness> <unwind> <timeout>: run cbmc symex verbosely on the latest goto binary of the harness
F=$(ls -t tgt-model/kani/x86_64-unknown-linux-gnu/debug/build/cosmian_cover_crypt/*/out/*$1*.out | head -1)
UW=$(python3 - "$F" "$1" <<'PY'
import sys,re,subprocess
sys.path.insert(0,'/verif/lib'); import registry
F,h=sys.argv[1],sys.argv[2]
out=subprocess.run(['goto-instrument','--show-loops',F],stdout=subprocess.PIPE,stderr=subprocess.DEVNULL,text=True).stdout
uw=list(registry.HARNESSES[h].get('loops') or [])+list(registry.WRAP_CFG['unwindset'])
res=[]; seen=set()
for lid,where in re.findall(r'Loop (\S+):\n\s+(.*)',out):
    m=re.search(r'function (.*)$',where); fn=m.group(1) if m else where
    for rx,n in uw:
        if re.search(rx,fn) or re.search(rx,lid):
            if lid not in seen: res.append('%s:%d'%(lid,n)); seen.add(lid)
            break
if 'memcmp.0' not in seen: res.append('memcmp.0:70')
print(','.join(res))
PY
)
timeout $3 cbmc $F --no-malloc-may-fail --no-undefined-shift-check --no-signed-overflow-check --nan-check --no-self-loops-to-assumptions --no-pointer-primitive-check --unwind $2 --object-bits 16 --slice-formula --sat-solver cadical --unwindset "$UW" --verbosity 9 > sym.log 2>&1
echo rc=$?
grep -E "^(Runtime|size of program|Generated|[0-9]+ variables)" sym.log | head
grep "Unwinding loop\|Unwinding recursion\|Not unwinding" sym.log | sed 's/iteration [0-9]*//; s/file.*function//' | cut -c1-230 | sort | uniq -c | sort -rn | head -${4:-25}
