#!/bin/bash
# popt.sh <prop> <harness> <unwind> [N] : program-only profile by function (uses the per-harness wrap config)
F=$(./mk.sh $1 $2 | tail -1)
echo $F
UW=$(python3 - "$F" "$2" <<'PY'
import sys,re,subprocess,json
sys.path.insert(0,'/verif/lib'); import registry
F,h=sys.argv[1],sys.argv[2]
out=subprocess.run(['goto-instrument','--show-loops',F],stdout=subprocess.PIPE,stderr=subprocess.DEVNULL,text=True).stdout
uw=list(registry.HARNESSES[h].get('loops') or [])+list(registry.WRAP_CFG['unwindset'])
res=[]; seen=set()
for lid,where in re.findall(r'Loop (\S+):\n\s+(.*)',out):
    m=re.search(r'function (.*)$',where); fn=m.group(1) if m else where
    for rx,n in uw:
        if re.search(rx,fn) or re.search(rx,lid):
            if lid not in seen: res.append('%s:%d'%(lid,n)); seen.add(lid)
            break
if 'memcmp.0' not in seen: res.append('memcmp.0:70')
print(','.join(res))
PY
)
timeout ${T:-600} cbmc $F --no-malloc-may-fail --no-undefined-shift-check --no-signed-overflow-check --nan-check --no-self-loops-to-assumptions --no-pointer-primitive-check --unwind $3 --object-bits 16 --unwindset "$UW" --program-only 2>/dev/null > prog-$2.txt
wc -l prog-$2.txt
grep -o "function [^ ]*" prog-$2.txt | sort | uniq -c | sort -rn | head -${4:-30}
